package c19

// Family "seq-lease-grid": the lease clause of the statement ("the lease lasts
// the configured seconds plus 500 ms") for huge but legal lease lengths.
//
// SetExpire takes an int and keeps it as a uint32, and the lease is handed to
// the store in milliseconds: the grid puts the configured seconds on both
// sides of every point where seconds*1000+500 (or seconds itself) stops
// fitting a narrower integer type, plus round long leases (days to decades)
// and the largest value SetExpire keeps. Store time is virtual, so a
// 136-year lease costs nothing: every history asserts the TTL at the store to
// the millisecond, and the behaviour around the true lease end (another
// instance is refused at lease-1ms and admitted at the lease end / lease+1ms;
// a late Release by the expired holder leaves the new holder alone).
//
// Limits kept in mind: 4 294 967 295 s * 1000 + 500 ms = 4.29e18 ns fits a Go
// time.Duration (max 9.22e18 ns) and miniredis keeps TTLs as time.Duration, so
// FastForward(lease-1ms) and the exact TTL reading stay exact. Values above
// MaxUint32 are not used: SetExpire does not keep them (uint32), so "the
// configured seconds" is not defined for them.

import (
	"math"

	"verifharness/kit"
)

const day = 86400

var gridSecs = []int{
	// seconds*1000+500 crosses 2^31 ms / 2^32 ms / 2^33 ms
	2147482, 2147483, 2147484,
	4294966, 4294967, 4294968,
	8589934, 8589935,
	// seconds itself crosses 2^31; the largest values a uint32 keeps
	math.MaxInt32 - 1, math.MaxInt32, math.MaxInt32 + 1,
	math.MaxUint32 - 1, math.MaxUint32,
	// round long leases: below, between and above the wrap points
	3600, day, 24 * day, 25 * day, 30 * day, 49 * day, 50 * day, 60 * day, 90 * day, 100 * day, 365 * day, 3650 * day, 36500 * day,
	// narrower types: ms crossing 2^15, 2^16, 2^24; seconds crossing 2^15, 2^16
	32, 33, 65, 66, 16776, 16777, 16778, 32767, 32768, 65535, 65536,
}

func gridPick(g *kit.Rand) int {
	s := kit.Choose(g, gridSecs)
	if g.Chance(0.25) {
		s += g.Range(-2, 2)
	}
	if s < 0 {
		s = 0
	}
	if s > math.MaxUint32 {
		s = math.MaxUint32
	}
	return s
}

func seqLeaseGrid(c *kit.Case) {
	g := c.R
	n := g.Range(2, 3)
	r := newSeqRun(c, mainSrv, n)
	p := g.Perm(n)
	a, b := p[0], p[1]
	step := func(f func()) {
		if !r.stop {
			f()
		}
	}
	// every grid value comes up as the first lease of some case, whatever the seed
	S := gridSecs[c.Index%len(gridSecs)]
	if (c.Index/len(gridSecs))%3 == 2 {
		S = gridPick(g)
	}
	T := gridPick(g)
	if g.Chance(0.3) {
		T = kit.Choose(g, secChoices)
	}
	long := func(s int) {
		if leaseMs(s) >= 1<<31 {
			c.Obs("grid_leases_ge_2p31_ms", 1)
		}
		if leaseMs(s) >= 1<<32 {
			c.Obs("grid_leases_ge_2p32_ms", 1)
		}
	}
	long(S)
	step(func() { r.setExpire(a, S) })
	step(func() { r.acquire(a, false) }) // TTL at the store == S*1000+500, exactly
	switch g.Pick(4, 3, 3) {
	case 0: // the true lease end: refused at lease-1ms, admitted at the end (or 1 ms later)
		step(func() { r.ff(r.rem - 1) })
		step(func() { r.acquire(b, false) })
		step(func() { r.ff(int64(g.Range(1, 2))) })
		step(func() { r.setExpire(b, T) })
		long(T)
		step(func() { r.acquire(b, false) })
		step(func() { r.release(a, false) }) // late release by the expired holder
		step(func() { r.acquire(a, false) }) // refused: b's lock survived
		step(func() { r.ff(r.rem - 1) })
		step(func() { r.acquire(a, false) })
		step(func() { r.ff(1) })
		step(func() { r.acquire(a, false) })
		if !r.stop {
			c.Obs("grid_lease_boundary_both_sides", 1)
		}
	case 1: // somewhere inside the lease the holder refreshes: full lease again
		if r.rem > 2 {
			step(func() { r.ff(1 + g.Int63n(r.rem-2)) })
		}
		step(func() { r.acquire(b, false) })
		step(func() { r.acquire(a, false) })
		step(func() { r.ff(r.rem - 1) })
		step(func() { r.acquire(b, false) })
		step(func() { r.ff(1) })
		step(func() { r.acquire(b, false) })
		step(func() { r.release(a, false) })
		if !r.stop {
			c.Obs("grid_refresh_inside_long_lease", 1)
		}
	default: // the holder re-acquires with another (shorter or longer) expiry
		step(func() { r.setExpire(a, T) })
		long(T)
		step(func() { r.ff(int64(g.Range(1, 400))) })
		step(func() { r.acquire(a, false) })
		step(func() { r.ff(r.rem + int64(g.Range(-1, 1))) })
		step(func() { r.acquire(b, false) })
		step(func() { r.release(a, false) })
		step(func() { r.release(b, false) })
		if !r.stop {
			c.Obs("grid_reacquire_with_changed_expiry", 1)
		}
	}
	tail := g.Range(0, 6)
	for k := 0; k < tail && !r.stop; k++ {
		r.randomOp(g, false)
	}
	if !r.stop {
		c.Obs("grid_histories", 1)
	}
	r.conclude()
}
