// Package c19: Redis lock - one holder at a time, only the holder can release
// (DESIGN.md §4 C19).
//
// The real RedisLock (Go code + lockscript.lua + delscript.lua) runs against an
// in-process miniredis, which executes the Lua scripts atomically and keeps key
// TTLs as plain durations that only FastForward changes: store time is fully
// virtual, so a history can be placed exactly on a lease end (lease-1ms, lease,
// lease+1ms). Go-side time (timex, used by the redis client's circuit breaker
// and duration hook) is the kit's virtual clock.
//
// Sequential histories are decided online by a reference model
// (holder | none, remaining lease) that is compared, after every single
// operation, with the operation's result AND with the store itself (value of
// the key = id of the model's holder, TTL = model's remaining lease, exactly).
// Concurrent histories are recorded with logical stamps and decided by
// porcupine against the same model (FastForward and direct store reads are
// operations of that history too).
//
// Transport accounting: a client-side hook (the go-zero client's public
// redis.WithHook option; it sits inside the breaker hook, so it sees every
// command that is handed to the transport, once, whatever go-redis retries
// underneath) counts the commands the client ISSUED, and a server-side pre-hook
// (miniredis server.Hook) counts the client commands that ARRIVED (commands run
// by a Lua script from inside the server are not counted). Which commands a
// call uses is not the harness's business (only recorded); but when more
// commands arrived than were issued, go-redis has re-sent one (it does so after
// a wall-clock I/O timeout, which does happen on a starved machine): only such
// a history, with the retry evidenced, is abandoned as inconclusive. The server
// hook also injects store faults: error replies, retriable LOADING replies,
// NOSCRIPT (forces the EVAL fallback), failures of GET/SET/DEL (inside the
// scripts or not); a second miniredis is closed and restarted for network-level
// outages.
//
// The client-side hook is also the placement point of the "placement" family:
// a block of whole operations of other instances (FastForward past the lease,
// B.Acquire, ...) is executed immediately before the k-th store command of one
// Acquire/Release call, for every k the call issues, and the outcome must be
// explained by the model with the call taking effect at one single point.
package c19

import (
	"context"
	"errors"
	"fmt"
	"os"
	"reflect"
	"runtime"
	"sort"
	"strings"
	"sync"
	"sync/atomic"
	"syscall"
	"testing"
	"time"

	"github.com/alicebob/miniredis/v2"
	"github.com/alicebob/miniredis/v2/server"
	"github.com/anishathalye/porcupine"
	red "github.com/redis/go-redis/v9"
	"github.com/zeromicro/go-zero/core/breaker"
	"github.com/zeromicro/go-zero/core/logx"
	"github.com/zeromicro/go-zero/core/stores/redis"

	"verifharness/kit"
	"verifharness/kitp"
)

const (
	toleranceMs = 500 // the statement: lease = seconds*1000 + 500 ms
	maxInst     = 8
)

// ---------------------------------------------------------------- store

// fault modes of the server-side hook
const (
	fNone     = iota
	fErrReply // every command of the client answers "ERR ..." (not retried by go-redis)
	fLoading  // every command of the client answers "LOADING ..." (go-redis retries 3x, then fails)
	fNoScript // EVALSHA answers NOSCRIPT: the client falls back to EVAL (not an error)
	fInnerGet // every GET fails (today: inside the scripts, both abort before writing)
	fInnerSet // every SET fails (today: inside the lock script)
	fInnerDel // every DEL fails (today: inside the release script)
	fClosed   // the server is closed (network errors); flaky server only
	fOddReply // a script command (EVALSHA/EVAL) is not executed and answered with a reply of an unexpected type/value (srv.odd)
	nFaults
)

var faultNames = [...]string{"none", "err-reply", "loading-reply", "noscript", "inner-get-fails", "inner-set-fails", "inner-del-fails", "server-closed", "odd-reply"}

// replies of an unexpected type or value to a script command (fOddReply). None of
// them is the success reply of the script concerned ("OK" for the lock script, the
// integer 1 for the release script): the store never claims a success that did
// not happen.
const (
	oddStatus    = iota // +QUEUED
	oddStatusOK         // +OK            (release only: the lock script's success reply)
	oddInt0             // :0
	oddInt1             // :1             (acquire only: the release script's success reply)
	oddInt2             // :2
	oddBulk             // $4 NOPE
	oddBulkOne          // $1 1           (the digit as a string)
	oddArrayNone        // *0
	oddArrayOne         // *1 :7
	nOdd
)

var oddNames = [...]string{"status-QUEUED", "status-OK", "int-0", "int-1", "int-2", "bulk-NOPE", "bulk-1", "array-empty", "array-of-int"}

type srv struct {
	mr    *miniredis.Miniredis
	store *redis.Redis
	mode  atomic.Int32
	cli   *cliHook
	// client commands that arrived at the server (script-internal commands and
	// connection set-up excluded); compared with cli.sent, see retried()
	arrived atomic.Int64
	dirty   bool // the client's breaker may still remember injected failures

	odd atomic.Int32 // fOddReply: which reply
	// one-shot: run when the next script command of the client arrives at the server,
	// before it is executed (the call is in flight then)
	onArrive atomic.Pointer[func()]

	// wall-clock arrival times and connections of the last client commands; only
	// quoted in "inconclusive" messages to show that a re-execution was a
	// client-side retry after go-redis's 3 s I/O timeout
	lastMu sync.Mutex
	last   [5]arrival
}

type arrival struct {
	at   time.Time
	peer *server.Peer
	cmd  string
}

func (s *srv) lastArrivals() string {
	s.lastMu.Lock()
	defer s.lastMu.Unlock()
	var b strings.Builder
	for i := 1; i < len(s.last); i++ {
		if s.last[i-1].at.IsZero() {
			continue
		}
		fmt.Fprintf(&b, " %s +%dms(same conn: %v) %s;", s.last[i-1].cmd, s.last[i].at.Sub(s.last[i-1].at).Milliseconds(), s.last[i].peer == s.last[i-1].peer, s.last[i].cmd)
	}
	return "last client commands at the server with arrival gaps:" + b.String()
}

// cliHook is registered with the go-zero client through redis.WithHook. It is
// the innermost hook (go-zero adds its duration and breaker hooks first): it
// runs once per command that is really handed to the transport and not again
// for go-redis's internal retries.
type cliHook struct {
	sent  atomic.Int64 // commands issued by the client
	armed atomic.Bool  // placement armed (sequential use only)
	// an application hook that regards "nil reply" as no error: clears redis.Nil on the
	// command (legal for a hook registered through redis.WithHook)
	swallowNil atomic.Bool
	swallowed  atomic.Int64

	mu    sync.Mutex
	at    int      // run fn immediately before the at-th (0-based) command seen while armed
	seen  int      // commands seen while armed
	fired bool     // fn was run
	cmds  []string // names of the commands seen while armed
	fn    func()
}

func (h *cliHook) arm(at int, fn func()) {
	h.mu.Lock()
	h.at, h.seen, h.fired, h.cmds, h.fn = at, 0, false, nil, fn
	h.mu.Unlock()
	h.armed.Store(true)
}

func (h *cliHook) disarm() (fired bool, cmds []string) {
	h.armed.Store(false)
	h.mu.Lock()
	defer h.mu.Unlock()
	h.fn = nil
	return h.fired, h.cmds
}

func (h *cliHook) before(name string) {
	h.mu.Lock()
	var fn func()
	if h.seen == h.at && !h.fired {
		h.fired = true
		fn = h.fn
	}
	h.seen++
	h.cmds = append(h.cmds, name)
	h.mu.Unlock()
	if fn != nil {
		h.armed.Store(false) // the commands of the placed block itself are not boundaries
		fn()
		h.armed.Store(true)
	}
}

func (h *cliHook) DialHook(next red.DialHook) red.DialHook { return next }

func (h *cliHook) ProcessHook(next red.ProcessHook) red.ProcessHook {
	return func(ctx context.Context, cmd red.Cmder) error {
		if h.armed.Load() {
			h.before(cmd.Name())
		}
		h.sent.Add(1)
		err := next(ctx, cmd)
		if err != nil && h.swallowNil.Load() && errors.Is(err, red.Nil) {
			cmd.SetErr(nil)
			h.swallowed.Add(1)
			return nil
		}
		return err
	}
}

func (h *cliHook) ProcessPipelineHook(next red.ProcessPipelineHook) red.ProcessPipelineHook {
	return func(ctx context.Context, cmds []red.Cmder) error {
		// a pipeline / transaction goes out as one unit: the only boundary is before the unit
		if h.armed.Load() && len(cmds) > 0 {
			h.before(fmt.Sprintf("pipeline[%d]:%s", len(cmds), cmds[0].Name()))
		}
		h.sent.Add(int64(len(cmds)))
		return next(ctx, cmds)
	}
}

// connection set-up and transaction framing: sent by go-redis below the hooks
var notClientCmd = map[string]bool{"HELLO": true, "CLIENT": true, "AUTH": true, "SELECT": true, "READONLY": true, "MULTI": true, "EXEC": true, "QUIT": true}

// fromScript reports whether the server is dispatching a command of a running
// Lua script (redis.call) rather than one that a client sent: miniredis hands
// those to the same pre-hook with a throw-away peer whose context is marked
// "nested". The field is unexported; newSrv verifies that this reading works.
func fromScript(p *server.Peer) bool {
	v := reflect.ValueOf(p.Ctx)
	if v.Kind() != reflect.Ptr || v.IsNil() || v.Elem().Kind() != reflect.Struct {
		return false
	}
	f := v.Elem().FieldByName("nested")
	return f.IsValid() && f.Kind() == reflect.Bool && f.Bool()
}

func (s *srv) hook(p *server.Peer, cmd string, args ...string) bool {
	client := !notClientCmd[cmd] && !fromScript(p) // a command the go-zero client sent
	if client {
		s.arrived.Add(1)
		s.lastMu.Lock()
		copy(s.last[:], s.last[1:])
		s.last[len(s.last)-1] = arrival{time.Now(), p, cmd}
		s.lastMu.Unlock()
	}
	if client && (cmd == "EVALSHA" || cmd == "EVAL") {
		if fn := s.onArrive.Swap(nil); fn != nil {
			(*fn)()
		}
	}
	switch s.mode.Load() {
	case fOddReply:
		if client && (cmd == "EVALSHA" || cmd == "EVAL") {
			switch s.odd.Load() {
			case oddStatus:
				p.WriteInline("QUEUED")
			case oddStatusOK:
				p.WriteInline("OK")
			case oddInt0:
				p.WriteInt(0)
			case oddInt1:
				p.WriteInt(1)
			case oddInt2:
				p.WriteInt(2)
			case oddBulk:
				p.WriteBulk("NOPE")
			case oddBulkOne:
				p.WriteBulk("1")
			case oddArrayNone:
				p.WriteLen(0)
			default:
				p.WriteLen(1)
				p.WriteInt(7)
			}
			return true
		}
	case fErrReply:
		if client && cmd != "PING" {
			p.WriteError("ERR verif: injected store outage")
			return true
		}
	case fLoading:
		if client && cmd != "PING" {
			p.WriteError("LOADING verif: injected store outage")
			return true
		}
	case fNoScript:
		if cmd == "EVALSHA" {
			p.WriteError("NOSCRIPT No matching script. Please use EVAL.")
			return true
		}
	case fInnerGet:
		if cmd == "GET" {
			p.WriteError("ERR verif: injected GET failure")
			return true
		}
	case fInnerSet:
		if cmd == "SET" {
			p.WriteError("ERR verif: injected SET failure")
			return true
		}
	case fInnerDel:
		if cmd == "DEL" {
			p.WriteError("ERR verif: injected DEL failure")
			return true
		}
	}
	return false
}

// surplus is the evidence of a client-side re-send since the given counter
// readings: the number of commands that arrived at the server beyond those the
// client issued (0 on a healthy transport once every issued command has been
// answered, whatever commands go-zero chooses to use).
func (s *srv) surplus(sent0, arr0 int64) int64 {
	return (s.arrived.Load() - arr0) - (s.cli.sent.Load() - sent0)
}

func newSrv() *srv {
	s := &srv{mr: miniredis.NewMiniRedis(), cli: &cliHook{}}
	if err := s.mr.Start(); err != nil {
		panic(err)
	}
	s.mr.Server().SetPreHook(s.hook)
	// one go-redis client per address inside go-zero, and this address is new: the hook is installed
	s.store = redis.New(s.mr.Addr(), redis.WithHook(s.cli))
	// load both scripts now (first use costs EVALSHA -> NOSCRIPT -> EVAL), so that from
	// here on a call on today's go-zero is one script command at the server
	w := redis.NewRedisLock(s.store, "c19:warmup")
	warm := false
	for i := 0; i < 50 && !warm; i++ {
		a, err1 := w.Acquire()
		b, err2 := w.Release()
		_, _ = a, b
		warm = err1 == nil && err2 == nil
		if !warm {
			time.Sleep(20 * time.Millisecond)
		}
	}
	if !warm {
		panic("c19: cannot reach miniredis through the go-zero client")
	}
	// self-check of the accounting: a script that runs two commands inside the server is
	// ONE issued and ONE arrived command (fails if the client hook is not installed or
	// script-internal commands cannot be told from client commands any more)
	for i := 0; i < 50; i++ {
		s0, a0 := s.cli.sent.Load(), s.arrived.Load()
		_, err := s.store.Eval(`redis.call("EXISTS", KEYS[1]); return redis.call("EXISTS", KEYS[1])`, []string{"c19:selfcheck"})
		if err == nil && s.cli.sent.Load()-s0 == 1 && s.arrived.Load()-a0 == 1 {
			return s
		}
		time.Sleep(20 * time.Millisecond)
	}
	panic("c19: transport accounting self-check failed: issued/arrived command counts of one EVAL are not 1/1 (client hook not installed, or miniredis internals changed)")
}

func (s *srv) closeServer() {
	s.mode.Store(fClosed)
	s.mr.Close()
}

// restart brings a closed server back (values are preserved by miniredis) and
// waits until the go-zero client reaches it again.
func (s *srv) restart() bool {
	if err := s.mr.Restart(); err != nil {
		return false
	}
	s.mr.Server().SetPreHook(s.hook)
	s.mode.Store(fNone)
	vclock.Advance(11 * time.Second)
	for i := 0; i < 200; i++ {
		if s.store.Ping() {
			s.dirty = false
			vclock.Advance(11 * time.Second)
			return true
		}
		vclock.Advance(11 * time.Second)
		time.Sleep(5 * time.Millisecond)
	}
	return false
}

var (
	vclock   *kit.VClock
	mainSrv  *srv
	flakySrv *srv
	keySeq   atomic.Int64
)

func leaseMs(seconds int) int64 { return int64(seconds)*1000 + toleranceMs }

// leaseClass separates, in violation keys, leases whose millisecond value does
// not fit 31 bits (about 24.8 days and longer) from ordinary ones.
func leaseClass(ms int64) string {
	if ms >= 1<<31 {
		return "/long-lease"
	}
	return ""
}

// goSide is the advance of the Go-side virtual clock (client breaker windows,
// duration hook) that accompanies a store-time advance of d ms. Leases live in
// store time only; the Go-side clock follows up to an hour per step, which is far
// beyond every window the client keeps, so that decades-long leases cannot
// overflow it.
func goSide(d int64) time.Duration {
	if d > 3600_000 {
		d = 3600_000
	}
	return time.Duration(d) * time.Millisecond
}

// ---------------------------------------------------------------- sequential runner

type seqRun struct {
	c    *kit.Case
	s    *srv
	key  string
	n    int
	lk   []*redis.RedisLock
	ids  []string // learned from the store when an instance gets a free key
	secs []int

	holder int   // model: index of the holder, -1 = free
	rem    int64 // model: remaining lease in ms (0 when free)

	lostByExpiry []bool // instance held the key and lost it because the lease ran out
	keyExpired   bool   // some lease ran out in this history
	log          []string
	stop         bool

	// what this history reached
	deniedByOther bool
	edge          bool
	lateRelease   bool
	faultOps      int

	// transport accounting (see srv.surplus): counter readings at the start of the
	// history, and the surplus that failed calls (which may or may not have reached
	// the server, and may have been retried on purpose) have left behind
	sent0, arr0, slack int64

	// placement family: non-trivial iff operations of other instances really ran
	// between two store commands / before the first store command of a call
	isPlacement, placedNontrivial bool

	// class of the failing input appended to every violation key of this history
	// (families whose inputs differ in kind from the ordinary histories: "instances")
	keyClass string
	// loose[i]: instance i was given a negative SetExpire value. "The configured
	// seconds" is not defined then: lease lengths of its grants are not asserted
	// (the store's TTL is adopted), everything else is.
	loose []bool
	// compact: do not keep a sample of the whole history (thousands of operations)
	compact bool
	// more for the witness of a violation
	extra func() map[string]any
}

func newKey(c *kit.Case) string {
	return fmt.Sprintf("c19:%s:%d:%d", c.Family, c.Index, keySeq.Add(1))
}

func newSeqRun(c *kit.Case, s *srv, n int) *seqRun {
	key := newKey(c)
	lk := make([]*redis.RedisLock, 0, n)
	for i := 0; i < n; i++ {
		lk = append(lk, redis.NewRedisLock(s.store, key))
	}
	return newSeqRunOver(c, s, key, lk)
}

// newSeqRunOver runs a history over lock instances that the caller created (all on key).
func newSeqRunOver(c *kit.Case, s *srv, key string, lk []*redis.RedisLock) *seqRun {
	n := len(lk)
	r := &seqRun{c: c, s: s, n: n, holder: -1, key: key, lk: lk}
	r.ids = make([]string, n)
	r.secs = make([]int, n)
	r.lostByExpiry = make([]bool, n)
	r.loose = make([]bool, n)
	// start every history with an empty breaker window
	vclock.Advance(11 * time.Second)
	s.dirty = false
	r.sent0, r.arr0 = s.cli.sent.Load(), s.arrived.Load()
	return r
}

func (r *seqRun) finish() { r.s.mr.Del(r.key) }

func (r *seqRun) witness(detail string) map[string]any {
	w := map[string]any{"instances": r.n, "key": r.key, "history": append([]string(nil), r.log...), "detail": detail,
		"model_holder": r.holder, "model_remaining_ms": r.rem}
	if r.extra != nil {
		for k, v := range r.extra() {
			w[k] = v
		}
	}
	return w
}

// tailLog: the last n entries of the history (messages only; witnesses carry all of it).
func (r *seqRun) tailLog(n int) []string {
	if len(r.log) <= n {
		return r.log
	}
	return append([]string{fmt.Sprintf("...(%d operations)...", len(r.log)-n)}, r.log[len(r.log)-n:]...)
}

// accounted reports whether exactly the commands that the client issued in
// this history arrived at the server. More arrive if go-redis re-sent a command
// after a wall-clock I/O timeout (starved machine): the timed-out attempt may
// even be executed later, behind the harness's back. Which commands a call
// uses, and how many, does not matter here.
func (r *seqRun) accounted() bool { return r.s.surplus(r.sent0, r.arr0) == r.slack }

// resync accepts the present surplus: after a call that failed (injected
// retriable fault, closed server, cancelled context) issued and arrived commands
// legitimately differ.
func (r *seqRun) resync() { r.slack = r.s.surplus(r.sent0, r.arr0) }

func (r *seqRun) retryEvidence() string {
	return fmt.Sprintf("%d more commands arrived at the server than the client issued in this history: client-side I/O retry; %s", r.s.surplus(r.sent0, r.arr0)-r.slack, r.s.lastArrivals())
}

func (r *seqRun) viol(key, what string) {
	if !r.accounted() {
		r.inconclusive(r.retryEvidence() + "; not judged: " + key)
		return
	}
	r.c.Viol(key+r.keyClass, what, r.witness(what))
	r.stop = true
}

func (r *seqRun) inconclusive(why string) {
	r.c.Inconclusive(why + " | history: " + strings.Join(r.tailLog(60), " "))
	r.c.Obs("histories_abandoned_inconclusive", 1)
	r.stop = true
}

type sstate struct {
	exists bool
	val    string
	ttl    int64 // ms, 0 = no expiry set
	sub    bool  // ttl is not a whole number of ms
}

func (r *seqRun) store() sstate {
	v, err := r.s.mr.Get(r.key)
	if err != nil {
		return sstate{}
	}
	d := r.s.mr.TTL(r.key)
	return sstate{exists: true, val: v, ttl: int64(d / time.Millisecond), sub: d%time.Millisecond != 0}
}

func (r *seqRun) whoIs(val string) string {
	for i, id := range r.ids {
		if id != "" && id == val {
			return fmt.Sprintf("instance %d", i)
		}
	}
	return "an unknown id"
}

// matches reports whether the store shows exactly the model state (h, rem).
func (r *seqRun) matches(st sstate, h int, rem int64) bool {
	if h < 0 {
		return !st.exists
	}
	if !st.exists || st.ttl != rem || st.sub {
		return false
	}
	return r.ids[h] == "" || r.ids[h] == st.val
}

func (r *seqRun) errExpected(isAcquire bool, i int) bool {
	switch r.s.mode.Load() {
	case fErrReply, fLoading, fClosed, fInnerGet, fOddReply:
		return true
	case fInnerSet:
		return isAcquire
	case fInnerDel:
		return !isAcquire && r.holder == i
	}
	return false
}

// onError handles an operation that returned an error: no grant, and the store
// is either untouched or as if the script had run (both are within the statement).
func (r *seqRun) onError(opname string, i int, ok bool, err error, cancelled bool, asIfHolder int, asIfRem int64) {
	r.resync() // a failed call may have been executed or not
	faulty := r.s.mode.Load() != fNone && r.s.mode.Load() != fNoScript
	brk := errors.Is(err, breaker.ErrServiceUnavailable)
	if ok {
		r.viol("C19/error/success-reported-with-error", fmt.Sprintf("%s by instance %d returned (true, %v)", opname, i, err))
		return
	}
	if !faulty && !cancelled && !(brk && r.s.dirty) {
		// No fault is injected. A transport error (I/O timeout on a starved machine) is
		// infrastructure; an error REPLY of the healthy store is not: the store refused the
		// command go-zero built for a legal configuration (e.g. a lease that wrapped to a
		// non-positive PX), so the instance can never get the free key / its lease.
		var reply red.Error
		if errors.As(err, &reply) && !brk && !(opname == "acquire" && r.loose[i]) {
			cls := ""
			if opname == "acquire" {
				cls = leaseClass(leaseMs(r.secs[i]))
			}
			r.viol("C19/error/store-rejected-"+opname+cls, fmt.Sprintf("%s by instance %d (seconds=%d) on a healthy store (no fault injected) was rejected by the store: %v", opname, i, r.secs[i], err))
			return
		}
		r.inconclusive(fmt.Sprintf("%s by instance %d: unexpected infrastructure error without injected fault: %v", opname, i, err))
		return
	}
	if brk {
		r.c.Obs("ops_rejected_by_client_breaker", 1)
	} else if cancelled {
		r.c.Obs("ops_with_cancelled_context", 1)
	} else {
		r.c.Obs("ops_store_error", 1)
		r.c.Obs("ops_store_error_"+faultNames[r.s.mode.Load()], 1)
		r.s.dirty = true
	}
	r.faultOps++
	st := r.store()
	switch {
	case r.matches(st, r.holder, r.rem):
		r.c.Obs("store_untouched_after_error", 1)
	case r.matches(st, asIfHolder, asIfRem):
		r.holder, r.rem = asIfHolder, asIfRem
		r.c.Obs("store_changed_as_if_executed_after_error", 1)
	default:
		r.viol("C19/error/store-corrupted-after-failed-"+opname, fmt.Sprintf("%s by instance %d failed with %v and left the store at %+v (model: holder %d, %d ms)", opname, i, err, st, r.holder, r.rem))
	}
}

// context modes of one call
const (
	cxNone             = iota
	cxCancelledBefore  // cancelled before the call
	cxDeadlineBefore   // the deadline had passed before the call
	cxCancelAtClient   // cancelled inside the call, immediately before its first store command is handed to the transport
	cxCancelInFlight   // cancelled while the call is in flight: its script command has arrived at the server and has not run yet
	cxDeadlineInFlight // the deadline passes while the script command is at the server, before it runs
	nCx
)

var cxNames = [...]string{"", "CancelledCtx", "ExpiredDeadlineCtx", "CtxCancelledBeforeFirstCommand", "CtxCancelledInFlight", "CtxDeadlinePassesInFlight"}
var cxObs = [...]string{"", "cancelled_before", "deadline_before", "cancelled_at_first_command", "cancelled_in_flight", "deadline_in_flight"}

// withCx prepares the context of one call; after() is to be called when the call
// has returned (it reports whether an in-flight mode really found the command at
// the server).
func (r *seqRun) withCx(cx int) (ctx context.Context, after func()) {
	ctx = context.Background()
	switch cx {
	case cxCancelledBefore:
		c, cancel := context.WithCancel(ctx)
		cancel()
		return c, func() {}
	case cxDeadlineBefore:
		c, cancel := context.WithDeadline(ctx, time.Now().Add(-time.Second))
		return c, cancel
	case cxCancelAtClient:
		c, cancel := context.WithCancel(ctx)
		r.s.cli.arm(0, cancel)
		return c, func() {
			if fired, _ := r.s.cli.disarm(); fired {
				r.c.Obs("ctx_cancelled_at_first_command_of_call", 1)
			}
			cancel()
		}
	case cxCancelInFlight, cxDeadlineInFlight:
		var c context.Context
		var cancel context.CancelFunc
		if cx == cxDeadlineInFlight {
			// wall clock only decides WHEN the context becomes done (before or in flight:
			// both are legal inputs), the command is held at the server until it is
			c, cancel = context.WithTimeout(ctx, 15*time.Millisecond)
		} else {
			c, cancel = context.WithCancel(ctx)
		}
		var hit atomic.Bool
		fn := func() {
			if cx == cxCancelInFlight {
				cancel()
			}
			<-c.Done()
			hit.Store(true)
		}
		r.s.onArrive.Store(&fn)
		return c, func() {
			r.s.onArrive.Store(nil)
			cancel()
			if hit.Load() {
				r.c.Obs("ctx_done_while_command_at_server", 1)
			}
		}
	}
	return ctx, func() {}
}

func (r *seqRun) acquire(i int, cancelled bool) {
	if cancelled {
		r.acquireCx(i, cxCancelledBefore)
	} else {
		r.acquireCx(i, cxNone)
	}
}

// looseError: an Acquire of an instance with a negative SetExpire value returned an
// error. Only: no grant, and the store untouched or showing this instance.
func (r *seqRun) looseError(i int, ok bool, err error) {
	r.resync()
	r.c.Obs("negative_seconds_acquire_errors", 1)
	if ok {
		r.viol("C19/error/success-reported-with-error", fmt.Sprintf("acquire by instance %d returned (true, %v)", i, err))
		return
	}
	st := r.store()
	if r.matches(st, r.holder, r.rem) {
		return
	}
	if (r.holder < 0 || r.holder == i) && st.exists && (r.ids[i] == "" || r.ids[i] == st.val) && st.ttl > 0 {
		r.holder, r.rem = i, st.ttl
		return
	}
	r.viol("C19/error/store-corrupted-after-failed-acquire", fmt.Sprintf("acquire by instance %d (SetExpire(%d)) failed with %v and left the store at %+v (model: holder %d, %d ms)", i, r.secs[i], err, st, r.holder, r.rem))
}

func (r *seqRun) acquireCx(i, cx int) {
	ctx, after := r.withCx(cx)
	name := "Acquire" + cxNames[cx]
	cancelled := cx != cxNone
	s0 := r.s.cli.sent.Load()
	ok, err := r.lk[i].AcquireCtx(ctx)
	after()
	r.log = append(r.log, fmt.Sprintf("%s(%d)=%v%s", name, i, ok, errStr(err)))
	want := r.holder < 0 || r.holder == i
	var lease int64
	if !r.loose[i] {
		lease = leaseMs(r.secs[i])
	}
	if err != nil {
		if r.loose[i] && !cancelled && r.s.mode.Load() == fNone {
			r.looseError(i, ok, err)
			return
		}
		h, rem := r.holder, r.rem
		if want {
			h, rem = i, lease
		}
		if cancelled {
			r.c.Obs("ops_ctx_"+cxObs[cx]+"_error", 1)
			if !errors.Is(err, context.Canceled) {
				r.s.dirty = true // a passed deadline counts as a failure in the client's breaker
			}
		}
		r.onError("acquire", i, ok, err, cancelled, h, rem)
		return
	}
	expErr := r.errExpected(true, i) || cancelled
	if !r.accounted() {
		r.inconclusive("Acquire returned without error, but " + r.retryEvidence())
		return
	}
	if cancelled {
		r.c.Obs("ops_ctx_"+cxObs[cx]+"_completed", 1)
	}
	r.c.Obs("acquire_calls_ok", 1)
	r.c.Obs("acquire_calls_ok_store_commands", r.s.cli.sent.Load()-s0)
	if expErr && !ok && r.matches(r.store(), r.holder, r.rem) {
		// the failure was swallowed as a plain denial; harmless for the statement
		r.c.Obs("store_error_reported_as_denial", 1)
		if r.s.mode.Load() == fOddReply {
			r.c.Obs("odd_reply_to_acquire_reported_as_denial", 1)
			r.c.Obs("odd_reply_to_acquire_"+oddNames[r.s.odd.Load()], 1)
		}
		r.faultOps++
		return
	}
	refresh := r.holder == i
	switch {
	case ok && !want:
		st := r.store()
		r.viol("C19/acquire/granted-while-held-by-other", fmt.Sprintf("Acquire by instance %d succeeded although instance %d holds the key with %d ms of lease left (store now: %+v = %s)", i, r.holder, r.rem, st, r.whoIs(st.val)))
		return
	case !ok && want && refresh:
		r.viol("C19/acquire/denied-to-holder", fmt.Sprintf("re-Acquire by the holder (instance %d, %d ms left) was denied", i, r.rem))
		return
	case !ok && want:
		if r.keyExpired {
			r.viol("C19/acquire/denied-after-lease-end", fmt.Sprintf("Acquire by instance %d denied although the previous lease has run out (store: %+v)", i, r.store()))
		} else {
			r.viol("C19/acquire/denied-on-free-key", fmt.Sprintf("Acquire by instance %d denied on a free key (store: %+v)", i, r.store()))
		}
		return
	}
	if !ok {
		r.deniedByOther = true
		r.c.Obs("acquire_denied_while_held", 1)
		if !r.matches(r.store(), r.holder, r.rem) {
			r.viol("C19/acquire/denied-but-store-changed", fmt.Sprintf("denied Acquire by instance %d changed the store to %+v (model: holder %d, %d ms)", i, r.store(), r.holder, r.rem))
		}
		return
	}
	// granted
	st := r.store()
	kind := "on-grant"
	if refresh {
		kind = "on-refresh"
		r.c.Obs("holder_refreshes", 1)
	} else {
		r.c.Obs("acquire_granted", 1)
		if r.keyExpired {
			r.c.Obs("acquire_granted_after_expiry", 1)
		}
	}
	if !st.exists {
		r.viol("C19/acquire/granted-but-not-stored", fmt.Sprintf("Acquire by instance %d returned true but the key does not exist", i))
		return
	}
	if r.ids[i] == "" {
		r.ids[i] = st.val
	} else if r.ids[i] != st.val {
		r.viol("C19/acquire/granted-but-not-stored", fmt.Sprintf("Acquire by instance %d returned true but the key holds the id of %s", i, r.whoIs(st.val)))
		return
	}
	if r.loose[i] {
		// negative SetExpire value: the statement defines no lease length; the store's is adopted
		r.c.Obs("acquire_granted_with_negative_seconds", 1)
		if st.ttl == 0 {
			r.c.Obs("acquire_granted_with_negative_seconds_no_expiry", 1)
			r.log = append(r.log, "(key without expiry: history ends)")
			r.stop = true
			return
		}
		r.holder, r.rem = i, st.ttl
		r.lostByExpiry[i] = false
		return
	}
	r.c.Obs("lease_ttl_readings", 1)
	if st.ttl == 0 {
		r.viol("C19/lease/no-ttl/"+kind+leaseClass(lease), fmt.Sprintf("after Acquire by instance %d (seconds=%d) the key has no expiry", i, r.secs[i]))
		return
	}
	if st.ttl != lease || st.sub {
		r.viol("C19/lease/wrong-ttl/"+kind+leaseClass(lease), fmt.Sprintf("after Acquire by instance %d with seconds=%d the lease is %d ms, want %d ms", i, r.secs[i], st.ttl, lease))
		return
	}
	r.holder, r.rem = i, lease
	r.lostByExpiry[i] = false
}

func (r *seqRun) release(i int, cancelled bool) {
	if cancelled {
		r.releaseCx(i, cxCancelledBefore)
	} else {
		r.releaseCx(i, cxNone)
	}
}

func (r *seqRun) releaseCx(i, cx int) {
	ctx, after := r.withCx(cx)
	name := "Release" + cxNames[cx]
	cancelled := cx != cxNone
	class := "free-key"
	switch {
	case r.holder >= 0 && r.holder != i && r.lostByExpiry[i]:
		class = "expired-holder-after-retake"
	case r.holder >= 0 && r.holder != i:
		class = "foreign"
	case r.holder < 0 && r.lostByExpiry[i]:
		class = "expired-holder-free-key"
	}
	s0 := r.s.cli.sent.Load()
	ok, err := r.lk[i].ReleaseCtx(ctx)
	after()
	r.log = append(r.log, fmt.Sprintf("%s(%d)=%v%s", name, i, ok, errStr(err)))
	want := r.holder == i
	if err != nil {
		h, rem := r.holder, r.rem
		if want {
			h, rem = -1, 0
		}
		if cancelled {
			r.c.Obs("ops_ctx_"+cxObs[cx]+"_error", 1)
			if !errors.Is(err, context.Canceled) {
				r.s.dirty = true
			}
		}
		r.onError("release", i, ok, err, cancelled, h, rem)
		return
	}
	expErr := r.errExpected(false, i) || cancelled
	if !r.accounted() {
		r.inconclusive("Release returned without error, but " + r.retryEvidence())
		return
	}
	if cancelled {
		r.c.Obs("ops_ctx_"+cxObs[cx]+"_completed", 1)
	}
	r.c.Obs("release_calls_ok", 1)
	r.c.Obs("release_calls_ok_store_commands", r.s.cli.sent.Load()-s0)
	st := r.store()
	if expErr && !ok && r.matches(st, r.holder, r.rem) {
		r.c.Obs("store_error_reported_as_denial", 1)
		if r.s.mode.Load() == fOddReply {
			r.c.Obs("odd_reply_to_release_reported_as_false", 1)
			r.c.Obs("odd_reply_to_release_"+oddNames[r.s.odd.Load()], 1)
		}
		r.faultOps++
		return
	}
	if !want {
		r.c.Obs("release_by_non_holder", 1)
		if class == "expired-holder-after-retake" {
			r.lateRelease = true
			r.c.Obs("release_by_non_holder_after_own_expiry", 1)
		} else if class == "foreign" {
			r.lateRelease = true
			r.c.Obs("release_by_foreign_instance_while_held", 1)
		}
		changed := !r.matches(st, r.holder, r.rem)
		if ok {
			r.viol("C19/release/true-by-non-holder/"+class, fmt.Sprintf("Release by instance %d returned true although the model holder is %d", i, r.holder))
		}
		if changed {
			r.viol("C19/release/freed-by-non-holder/"+class, fmt.Sprintf("Release by instance %d (not the holder; holder %d with %d ms left) changed the store to %+v", i, r.holder, r.rem, st))
		}
		return
	}
	r.c.Obs("release_by_holder", 1)
	if !ok {
		r.viol("C19/release/false-by-holder", fmt.Sprintf("Release by the holder (instance %d, %d ms left) returned false (store: %+v)", i, r.rem, st))
		return
	}
	if st.exists {
		r.viol("C19/release/not-freed-by-holder", fmt.Sprintf("Release by the holder (instance %d) returned true but the key still exists: %+v", i, st))
		return
	}
	r.holder, r.rem = -1, 0
}

func (r *seqRun) setExpire(i, s int) {
	r.lk[i].SetExpire(s)
	r.secs[i] = s
	r.loose[i] = s < 0
	r.log = append(r.log, fmt.Sprintf("SetExpire(%d,%d)", i, s))
	if !r.matches(r.store(), r.holder, r.rem) {
		r.viol("C19/setexpire/store-changed", fmt.Sprintf("SetExpire changed the store to %+v", r.store()))
	}
}

func (r *seqRun) ff(d int64) {
	if d <= 0 {
		d = 1
	}
	if r.holder >= 0 && (d == r.rem-1 || d == r.rem || d == r.rem+1) {
		r.edge = true
		r.c.Obs("fastforward_to_lease_end_pm_1ms", 1)
	}
	r.s.mr.FastForward(time.Duration(d) * time.Millisecond)
	vclock.Advance(goSide(d))
	r.log = append(r.log, fmt.Sprintf("FastForward(%dms)", d))
	if r.holder >= 0 {
		r.rem -= d
		if r.rem <= 0 {
			r.lostByExpiry[r.holder] = true
			r.keyExpired = true
			r.holder, r.rem = -1, 0
			r.c.Obs("leases_expired", 1)
		}
	}
	st := r.store()
	if r.matches(st, r.holder, r.rem) {
		return
	}
	switch {
	case st.exists && r.holder < 0:
		r.viol("C19/lease/outlives-lease-end", fmt.Sprintf("after the lease end the key still exists: %+v", st))
	case !st.exists && r.holder >= 0:
		r.viol("C19/lease/expired-early", fmt.Sprintf("key gone although the model lease has %d ms left", r.rem))
	default:
		r.viol("C19/lease/ttl-drift", fmt.Sprintf("store %+v, model holder %d with %d ms", st, r.holder, r.rem))
	}
}

func (r *seqRun) setFault(m int) {
	if m == fClosed {
		r.s.closeServer()
	} else {
		r.s.mode.Store(int32(m))
	}
	r.s.dirty = true // NOSCRIPT and error replies count as failures in the client's breaker
	r.log = append(r.log, "Fault("+faultNames[m]+")")
}

func (r *seqRun) heal(clearBreaker bool) {
	if r.s.mode.Load() == fClosed {
		if !r.s.restart() {
			r.inconclusive("could not reach the restarted store")
			return
		}
		r.resync() // pings sent while the server was still down never arrived
		r.log = append(r.log, "Heal(restart)+11s")
		return
	}
	r.s.mode.Store(fNone)
	if clearBreaker {
		vclock.Advance(11 * time.Second)
		r.s.dirty = false
		r.log = append(r.log, "Heal+11s")
	} else {
		r.log = append(r.log, "Heal")
	}
}

func errStr(err error) string {
	if err == nil {
		return ""
	}
	s := err.Error()
	if len(s) > 60 {
		s = s[:60]
	}
	return ",err=" + s
}

var secChoices = []int{0, 0, 1, 1, 2, 3, 5, 10}

// ffChoice places the advance around the current lease end.
func (r *seqRun) ffChoice(g *kit.Rand) int64 {
	if r.holder >= 0 {
		switch g.Pick(3, 3, 3, 2, 2, 1) {
		case 0:
			return r.rem - 1
		case 1:
			return r.rem
		case 2:
			return r.rem + 1
		case 3:
			return int64(g.Range(1, int(r.rem)))
		case 4:
			return 1
		default:
			return r.rem + int64(g.Range(2, 5000))
		}
	}
	switch g.Pick(2, 2, 1) {
	case 0:
		return 1
	case 1:
		return leaseMs(kit.Choose(g, secChoices)) + int64(g.Range(-1, 1))
	default:
		return int64(g.Range(1, 12000))
	}
}

// randomOp draws and executes one operation.
func (r *seqRun) randomOp(g *kit.Rand, faults bool) {
	i := g.Intn(r.n)
	// bias towards the interesting actors: the holder and instances that lost the key
	if r.holder >= 0 && g.Chance(0.25) {
		i = r.holder
	}
	switch g.Pick(38, 26, 10, 26) {
	case 0:
		r.acquire(i, faults && g.Chance(0.05))
	case 1:
		r.release(i, faults && g.Chance(0.05))
	case 2:
		r.setExpire(i, kit.Choose(g, secChoices))
	default:
		r.ff(r.ffChoice(g))
	}
}

func (r *seqRun) conclude() {
	c := r.c
	c.Obs("histories_sequential", 1)
	c.Obs("ops_sequential", int64(len(r.log)))
	nontrivial := r.deniedByOther && (r.edge || r.lateRelease)
	if r.isPlacement {
		nontrivial = r.placedNontrivial
	}
	sig := []any{"seq", r.n}
	for _, l := range r.log {
		sig = append(sig, l)
	}
	c.Sig(nontrivial && !r.stop, sig...)
	hist := r.log
	if r.compact && len(hist) > 40 {
		hist = append(append(append([]string(nil), hist[:30]...), fmt.Sprintf("...(%d operations)...", len(hist)-40)), hist[len(hist)-10:]...)
	}
	if nontrivial {
		c.Sample(c.Family+"-nontrivial", 1, map[string]any{"instances": r.n, "history": hist})
	} else {
		c.Sample(c.Family, 1, map[string]any{"instances": r.n, "history": hist})
	}
	r.finish()
}

// ---------------------------------------------------------------- sequential families

func seqRandom(c *kit.Case) {
	g := c.R
	n := g.Range(1, maxInst)
	if g.Chance(0.5) {
		n = g.Range(2, 4)
	}
	r := newSeqRun(c, mainSrv, n)
	L := g.Range(8, 40)
	for k := 0; k < L && !r.stop; k++ {
		r.randomOp(g, false)
	}
	r.conclude()
}

// forced patterns, each followed by a random tail
func seqPattern(c *kit.Case) {
	g := c.R
	n := g.Range(2, maxInst)
	if g.Chance(0.6) {
		n = g.Range(2, 3)
	}
	r := newSeqRun(c, mainSrv, n)
	p := g.Perm(n)
	a, b := p[0], p[1]
	pat := c.Index % 6
	edgeD := func() int64 { return int64(g.Range(-1, 1)) }
	step := func(f func()) {
		if !r.stop {
			f()
		}
	}
	switch pat {
	case 0: // A expires - B acquires - A releases late - B still holds
		step(func() { r.setExpire(a, kit.Choose(g, secChoices)) })
		step(func() { r.acquire(a, false) })
		off := edgeD()
		step(func() { r.ff(r.rem + off) })
		step(func() { r.acquire(b, false) })
		if off < 0 {
			// A still held it for 1 ms: B was denied; now cross the end
			step(func() { r.ff(kit.Choose(g, []int64{1, 2})) })
			step(func() { r.acquire(b, false) })
		}
		heldByB := r.holder == b
		step(func() { r.release(a, false) })
		step(func() { r.acquire(a, false) }) // must be denied: B's lock survived
		step(func() { r.release(b, false) })
		if heldByB && !r.stop {
			c.Obs("pattern_A_expires_B_acquires_A_releases", 1)
		}
	case 1: // lease boundary: denied at lease-1ms, granted at lease
		step(func() { r.setExpire(a, kit.Choose(g, secChoices)) })
		step(func() { r.acquire(a, false) })
		step(func() { r.ff(r.rem - 1) })
		step(func() { r.acquire(b, false) })
		step(func() { r.ff(1) })
		step(func() { r.acquire(b, false) })
		step(func() { r.acquire(a, false) })
		if !r.stop {
			c.Obs("pattern_lease_boundary", 1)
		}
	case 2: // holder refresh with a changed expiry
		step(func() { r.setExpire(a, kit.Choose(g, secChoices)) })
		step(func() { r.acquire(a, false) })
		step(func() { r.ff(int64(g.Range(1, int(r.rem)-1))) })
		step(func() { r.setExpire(a, kit.Choose(g, secChoices)) })
		step(func() { r.acquire(a, false) })
		step(func() { r.acquire(b, false) })
		step(func() { r.ff(r.rem + edgeD()) })
		step(func() { r.acquire(b, false) })
		step(func() { r.release(a, false) })
		if !r.stop {
			c.Obs("pattern_holder_refresh", 1)
		}
	case 3: // foreign and double release
		step(func() { r.release(b, false) })
		step(func() { r.acquire(a, false) })
		step(func() { r.release(b, false) })
		step(func() { r.acquire(b, false) })
		step(func() { r.release(a, false) })
		step(func() { r.release(a, false) })
		step(func() { r.acquire(b, false) })
		if !r.stop {
			c.Obs("pattern_foreign_and_double_release", 1)
		}
	case 4: // A expires, nobody takes it, A releases; then B takes it and A releases again
		step(func() { r.acquire(a, false) })
		step(func() { r.ff(r.rem + int64(g.Range(0, 1))) })
		step(func() { r.release(a, false) })
		step(func() { r.setExpire(b, kit.Choose(g, secChoices)) })
		step(func() { r.acquire(b, false) })
		step(func() { r.release(a, false) })
		step(func() { r.acquire(a, false) })
		step(func() { r.ff(r.rem - 1) })
		step(func() { r.release(a, false) })
		step(func() { r.release(b, false) })
		if !r.stop {
			c.Obs("pattern_expired_holder_releases_free_key", 1)
		}
	default: // chain of take-overs at the lease end by every instance in turn
		for k := 0; k < n+2 && !r.stop; k++ {
			x, prev := p[k%n], p[(k+n-1)%n]
			step(func() { r.setExpire(x, kit.Choose(g, secChoices)) })
			step(func() { r.acquire(x, false) })
			if k > 0 {
				step(func() { r.release(prev, false) })
			}
			step(func() { r.ff(r.rem + edgeD()) })
		}
		if !r.stop {
			c.Obs("pattern_takeover_chain", 1)
		}
	}
	tail := g.Range(0, 12)
	for k := 0; k < tail && !r.stop; k++ {
		r.randomOp(g, false)
	}
	r.conclude()
}

// the same histories with store outages injected
func seqOutage(c *kit.Case) {
	g := c.R
	n := g.Range(2, 5)
	s := mainSrv
	// network-level outage on the flaky server: one case in eight. These cases cost wall-clock
	// retry back-off, so they must not all land in the same child (index%8 == 0 put all of them
	// into child 0 of 8, which then ran two minutes longer than the others).
	closing := (c.Index+c.Index/8)%8 == 0
	if closing {
		if flakySrv.mode.Load() == fClosed { // an earlier restart failed: start over on a fresh server
			flakySrv = newSrv()
		}
		s = flakySrv
	}
	r := newSeqRun(c, s, n)
	L := g.Range(10, 36)
	outageLeft := 0
	for k := 0; k < L && !r.stop; k++ {
		mode := int(s.mode.Load())
		switch {
		case mode == fNone && g.Chance(0.15):
			m := g.Range(fErrReply, fInnerDel)
			if closing {
				m = fClosed
			}
			r.setFault(m)
			outageLeft = g.Range(1, 4)
			if m == fLoading || m == fClosed {
				outageLeft = g.Range(1, 2) // each failing op costs real retry back-off
			}
			if m == fErrReply && g.Chance(0.3) {
				outageLeft = g.Range(8, 16) // long enough for the client's breaker to open
			}
		case mode != fNone && outageLeft <= 0:
			r.heal(g.Chance(0.6))
		default:
			if mode != fNone {
				outageLeft--
				// during an outage prefer lock operations over clock/config ones
				i := g.Intn(n)
				if g.Chance(0.5) {
					r.acquire(i, false)
				} else if g.Chance(0.7) {
					r.release(i, false)
				} else {
					r.ff(r.ffChoice(g))
				}
			} else {
				r.randomOp(g, true)
			}
		}
		if s.mode.Load() == fNone && s.dirty && g.Chance(0.3) {
			vclock.Advance(11 * time.Second)
			s.dirty = false
			r.log = append(r.log, "+11s")
		}
	}
	if s.mode.Load() != fNone {
		r.heal(true)
	}
	vclock.Advance(11 * time.Second)
	s.dirty = false
	if r.faultOps > 0 {
		c.Obs("histories_with_failed_ops", 1)
	}
	r.conclude()
}

// ---------------------------------------------------------------- concurrent histories

const (
	kAcq = iota
	kRel
	kSet
	kFF
	kGet // direct read of the key's value (holder)
	kTTL // direct read of the key's TTL
)

type cin struct {
	K int
	I int   // instance
	S int   // seconds (kSet)
	D int64 // ms (kFF)
}

type cout struct {
	OK     bool
	Err    bool
	Holder int   // kGet: instance index, -1 none, -2 unknown value
	TTL    int64 // kTTL
}

type cstate struct {
	holder int8
	rem    int64
	secs   [maxInst]int16
}

func (in cin) String() string {
	switch in.K {
	case kAcq:
		return fmt.Sprintf("Acquire(%d)", in.I)
	case kRel:
		return fmt.Sprintf("Release(%d)", in.I)
	case kSet:
		return fmt.Sprintf("SetExpire(%d,%d)", in.I, in.S)
	case kFF:
		return fmt.Sprintf("FastForward(%dms)", in.D)
	case kGet:
		return "StoreHolder()"
	default:
		return "StoreTTL()"
	}
}

func (o cout) str(k int) string {
	switch k {
	case kAcq, kRel:
		if o.Err {
			return fmt.Sprintf("%v,err", o.OK)
		}
		return fmt.Sprint(o.OK)
	case kGet:
		return fmt.Sprint(o.Holder)
	case kTTL:
		return fmt.Sprintf("%dms", o.TTL)
	}
	return ""
}

// lockModel is the sequential specification. withLease=false ignores lease
// lengths (used when SetExpire races with Acquire on a shared instance, where
// the lease used by that Acquire is legitimately either value).
func lockModel(withLease bool) porcupine.Model {
	return porcupine.Model{
		Init: func() any { return cstate{holder: -1} },
		Step: func(st, input, output any) (bool, any) {
			s := st.(cstate)
			in := input.(cin)
			out := output.(cout)
			switch in.K {
			case kAcq:
				if out.Err {
					return !out.OK, s // injected error replies: the script did not run
				}
				free := s.holder < 0 || int(s.holder) == in.I
				if out.OK != free {
					return false, s
				}
				if out.OK {
					s.holder = int8(in.I)
					s.rem = 1
					if withLease {
						s.rem = leaseMs(int(s.secs[in.I]))
					}
				}
				return true, s
			case kRel:
				if out.Err {
					return !out.OK, s
				}
				mine := int(s.holder) == in.I
				if out.OK != mine {
					return false, s
				}
				if mine {
					s.holder, s.rem = -1, 0
				}
				return true, s
			case kSet:
				s.secs[in.I] = int16(in.S)
				return true, s
			case kFF:
				if s.holder >= 0 {
					s.rem -= in.D
					if s.rem <= 0 {
						s.holder, s.rem = -1, 0
					}
				}
				return true, s
			case kGet:
				return out.Holder == int(s.holder), s
			case kTTL:
				return !withLease || out.TTL == s.rem, s
			}
			return false, s
		},
	}
}

type crec struct {
	G         int
	In        cin
	Out       cout
	Call, Ret uint64
	ErrText   string
}

type actor struct {
	g    int
	plan []cin
	spin []int
	recs []crec
}

type conc struct {
	c     *kit.Case
	s     *srv
	key   string
	n     int
	lk    []*redis.RedisLock
	ids   map[string]int
	secs  []int
	recs  []crec
	stop  bool
	incon bool

	sent0, arr0 int64 // transport accounting, see seqRun
}

func newConc(c *kit.Case, s *srv, n int) *conc {
	h := &conc{c: c, s: s, n: n, ids: map[string]int{}, secs: make([]int, n)}
	h.key = fmt.Sprintf("c19:%s:%d:%d", c.Family, c.Index, keySeq.Add(1))
	for i := 0; i < n; i++ {
		h.lk = append(h.lk, redis.NewRedisLock(s.store, h.key))
	}
	vclock.Advance(11 * time.Second)
	s.dirty = false
	h.sent0, h.arr0 = s.cli.sent.Load(), s.arrived.Load()
	return h
}

// accounted: exactly the commands the client issued arrived at the server (the
// concurrent families inject only error replies that go-redis does not retry, and
// a call rejected by the client's breaker issues nothing, so this holds for
// failed calls too). Only evaluated while no call is in flight.
func (h *conc) accounted() bool { return h.s.surplus(h.sent0, h.arr0) == 0 }

func (h *conc) retryEvidence() string {
	return fmt.Sprintf("%d more commands arrived at the server than the client issued in this history: client-side I/O retry; %s", h.s.surplus(h.sent0, h.arr0), h.s.lastArrivals())
}

// viol reports a violation unless commands arrived at the server that the
// client did not issue (client-side I/O retry: not judged).
func (h *conc) viol(key, what string) {
	if !h.accounted() {
		h.inconclusive(h.retryEvidence() + "; not judged: " + key)
		return
	}
	h.c.Viol(key, what, h.witness())
	h.stop = true
}

func (h *conc) exec(in cin) (cout, string) {
	switch in.K {
	case kAcq:
		ok, err := h.lk[in.I].Acquire()
		return cout{OK: ok, Err: err != nil}, errStr(err)
	case kRel:
		ok, err := h.lk[in.I].Release()
		return cout{OK: ok, Err: err != nil}, errStr(err)
	case kSet:
		h.lk[in.I].SetExpire(in.S)
	case kFF:
		h.s.mr.FastForward(time.Duration(in.D) * time.Millisecond)
		vclock.Advance(goSide(in.D))
	case kGet:
		v, err := h.s.mr.Get(h.key)
		if err != nil {
			return cout{Holder: -1}, ""
		}
		if i, ok := h.ids[v]; ok {
			return cout{Holder: i}, ""
		}
		return cout{Holder: -2}, ""
	case kTTL:
		return cout{TTL: int64(h.s.mr.TTL(h.key) / time.Millisecond)}, ""
	}
	return cout{}, ""
}

// one records a harness-sequential operation (between rounds).
func (h *conc) one(g int, in cin) cout {
	call := kit.Stamp()
	out, et := h.exec(in)
	ret := kit.Stamp()
	h.recs = append(h.recs, crec{G: g, In: in, Out: out, Call: call, Ret: ret, ErrText: et})
	if (in.K == kAcq || in.K == kRel) && !h.stop && !h.accounted() {
		h.inconclusive(fmt.Sprintf("after %s: %s", in, h.retryEvidence()))
	}
	return out
}

// learnIDs lets every instance take the free key once, reads its id from the
// store and releases again (part of the recorded history).
func (h *conc) learnIDs() bool {
	for i := 0; i < h.n; i++ {
		a := h.one(100, cin{K: kAcq, I: i})
		if h.stop {
			return false
		}
		v, err := h.s.mr.Get(h.key)
		if a.Err || !a.OK || err != nil {
			if a.Err {
				h.inconclusive("unexpected infrastructure error while learning ids")
			} else {
				h.viol("C19/acquire/denied-on-free-key", fmt.Sprintf("warm-up Acquire by instance %d on a free key: ok=%v stored=%v", i, a.OK, err == nil))
			}
			return false
		}
		if j, dup := h.ids[v]; dup {
			h.viol("C19/acquire/granted-while-held-by-other", fmt.Sprintf("instances %d and %d write the same id: each can take and release the other's lock", j, i))
			return false
		}
		h.ids[v] = i
		if r := h.one(100, cin{K: kRel, I: i}); h.stop {
			return false
		} else if r.Err || !r.OK {
			if r.Err {
				h.inconclusive("unexpected infrastructure error while learning ids")
			} else {
				h.viol("C19/release/false-by-holder", fmt.Sprintf("warm-up Release by the holder (instance %d) returned false", i))
			}
			return false
		}
	}
	return true
}

func (h *conc) inconclusive(why string) {
	h.c.Inconclusive(why)
	h.c.Obs("histories_abandoned_inconclusive", 1)
	h.incon = true
	h.stop = true
}

func (h *conc) witness() map[string]any {
	rs := append([]crec(nil), h.recs...)
	sort.Slice(rs, func(i, j int) bool { return rs[i].Call < rs[j].Call })
	var out []string
	for _, r := range rs {
		out = append(out, fmt.Sprintf("[%d..%d] g%d %s=%s%s", r.Call, r.Ret, r.G, r.In, r.Out.str(r.In.K), r.ErrText))
	}
	return map[string]any{"instances": h.n, "key": h.key, "history(call..return stamps, goroutine, op=result)": out}
}

// round runs the actors' plans concurrently (released together) and appends
// their records. A generous wall-clock watchdog only ever yields inconclusive.
func (h *conc) round(actors []*actor) bool {
	var ready, done sync.WaitGroup
	start := make(chan struct{})
	for _, a := range actors {
		ready.Add(1)
		done.Add(1)
		go func(a *actor) {
			defer done.Done()
			ready.Done()
			<-start
			for k, in := range a.plan {
				for s := 0; s < a.spin[k]; s++ {
					runtime.Gosched()
				}
				call := kit.Stamp()
				out, et := h.exec(in)
				ret := kit.Stamp()
				a.recs = append(a.recs, crec{G: a.g, In: in, Out: out, Call: call, Ret: ret, ErrText: et})
			}
		}(a)
	}
	ready.Wait()
	close(start)
	fin := make(chan struct{})
	go func() { done.Wait(); close(fin) }()
	select {
	case <-fin:
	case <-time.After(120 * time.Second):
		h.inconclusive("watchdog: a concurrent round did not finish within 120 s")
		return false
	}
	for _, a := range actors {
		h.recs = append(h.recs, a.recs...)
		a.recs = nil
	}
	// all calls have returned: every command the client issued has arrived, and no other
	if !h.accounted() {
		h.inconclusive("after a concurrent round: " + h.retryEvidence())
		return false
	}
	return true
}

func mkActor(g int, r *kit.Rand, plan []cin) *actor {
	a := &actor{g: g, plan: plan, spin: make([]int, len(plan))}
	for k := range a.spin {
		a.spin[k] = r.Pick(4, 3, 2, 1, 1) // 0..4 yields before the call
		if r.Chance(0.1) {
			a.spin[k] = r.Range(5, 30)
		}
	}
	return a
}

// decide runs the direct checks and porcupine on the whole recorded history.
func (h *conc) decide(family string, withLease, errorsAllowed bool) {
	c := h.c
	c.Obs("histories_concurrent", 1)
	c.Obs("ops_concurrent", int64(len(h.recs)))
	if h.stop {
		h.s.mr.Del(h.key)
		return
	}
	denied, errs, granted := 0, 0, 0
	for _, r := range h.recs {
		if r.In.K != kAcq && r.In.K != kRel {
			if r.In.K == kGet && r.Out.Holder == -2 {
				h.viol("C19/store/unknown-holder-value", "the key holds a value that is no instance's id")
			}
			continue
		}
		if r.Out.Err {
			errs++
			if strings.Contains(r.ErrText, "breaker") {
				c.Obs("conc_ops_rejected_by_client_breaker", 1)
			}
			if r.Out.OK {
				h.viol("C19/error/success-reported-with-error", fmt.Sprintf("%s returned true together with an error", r.In))
			}
		} else if !r.Out.OK && r.In.K == kAcq {
			denied++
		} else if r.Out.OK && r.In.K == kAcq {
			granted++
		}
	}
	if errs > 0 && !errorsAllowed {
		h.inconclusive("unexpected infrastructure error in a concurrent history without injected faults")
	}
	if h.stop {
		h.s.mr.Del(h.key)
		return
	}
	// really overlapping operations of different goroutines
	overlap := 0
	rs := h.recs
	for i := range rs {
		for j := i + 1; j < len(rs); j++ {
			if rs[i].G != rs[j].G && rs[i].Call < rs[j].Ret && rs[j].Call < rs[i].Ret {
				overlap++
			}
		}
	}
	c.Obs("overlapping_operation_pairs", int64(overlap))
	c.Obs("conc_acquire_denied", int64(denied))
	c.Obs("conc_acquire_granted", int64(granted))
	c.Obs("conc_ops_with_error", int64(errs))
	ops := make([]kitp.Op, len(rs))
	for i, r := range rs {
		ops[i] = kitp.Op{Client: r.G % 64, In: r.In, Out: r.Out, Call: r.Call, Ret: r.Ret}
	}
	// client ids must be small and dense for porcupine's visualisation only; map them
	cl := map[int]int{}
	for i := range ops {
		if _, ok := cl[rs[i].G]; !ok {
			cl[rs[i].G] = len(cl)
		}
		ops[i].Client = cl[rs[i].G]
	}
	switch kitp.Check(lockModel(withLease), ops, 60*time.Second) {
	case kitp.Ok:
		c.Obs("conc_linearizable", 1)
	case kitp.Illegal:
		h.viol("C19/conc/not-linearizable/"+family, "no sequential order of the recorded concurrent history satisfies the lock model (holder|none, lease)")
	default:
		h.inconclusive("porcupine timed out")
	}
	// signature: the merged sequence of call/return events with results
	type ev struct {
		s uint64
		t string
	}
	var evs []ev
	for _, r := range rs {
		evs = append(evs, ev{r.Call, fmt.Sprintf("c%d:%s", r.G, r.In)}, ev{r.Ret, fmt.Sprintf("r%d:%s", r.G, r.Out.str(r.In.K))})
	}
	sort.Slice(evs, func(i, j int) bool { return evs[i].s < evs[j].s })
	sig := []any{family, h.n}
	for _, e := range evs {
		sig = append(sig, e.t)
	}
	nontrivial := overlap > 0 && denied > 0 && !h.stop
	c.Sig(nontrivial, sig...)
	if nontrivial {
		c.Sample(family+"-nontrivial", 1, h.witness())
	}
	h.s.mr.Del(h.key)
}

func (h *conc) storeTTL() int64 { return int64(h.s.mr.TTL(h.key) / time.Millisecond) }

// between: quiescent observations and a clock advance around the current lease end
func (h *conc) between(g *kit.Rand, withLease bool) {
	h.one(101, cin{K: kGet})
	if withLease {
		h.one(101, cin{K: kTTL})
	}
	if !withLease {
		return
	}
	ttl := h.storeTTL()
	var d int64
	switch {
	case ttl > 0:
		switch g.Pick(3, 3, 3, 2, 1) {
		case 0:
			d = ttl - 1
		case 1:
			d = ttl
		case 2:
			d = ttl + 1
		case 3:
			d = int64(g.Range(1, int(ttl)))
		default:
			return
		}
		if d >= ttl-1 && d <= ttl+1 {
			h.c.Obs("fastforward_to_lease_end_pm_1ms", 1)
		}
	default:
		d = int64(g.Range(1, 2000))
	}
	if d <= 0 {
		d = 1
	}
	h.one(102, cin{K: kFF, D: d})
	h.one(101, cin{K: kGet})
}

// concOwn: every goroutine owns one instance; clock and observer actors run along.
func concOwn(c *kit.Case) {
	g := c.R
	n := g.Range(2, maxInst)
	h := newConc(c, mainSrv, n)
	if !h.learnIDs() {
		h.decide("own", true, false)
		return
	}
	rounds := g.Range(1, 3)
	per := 1 + 24/(n*rounds)
	if per > 3 {
		per = 3
	}
	for rd := 0; rd < rounds && !h.stop; rd++ {
		var actors []*actor
		for i := 0; i < n; i++ {
			var plan []cin
			k := g.Range(1, per)
			for j := 0; j < k; j++ {
				switch g.Pick(50, 35, 15) {
				case 0:
					plan = append(plan, cin{K: kAcq, I: i})
				case 1:
					plan = append(plan, cin{K: kRel, I: i})
				default:
					plan = append(plan, cin{K: kSet, I: i, S: kit.Choose(g, secChoices)})
				}
			}
			actors = append(actors, mkActor(i, g, plan))
		}
		if g.Chance(0.5) { // concurrent clock
			var plan []cin
			for j := g.Range(1, 2); j > 0; j-- {
				plan = append(plan, cin{K: kFF, D: kit.Choose(g, []int64{1, 499, 500, 501, 1499, 1500, 1501, int64(g.Range(1, 3000))})})
			}
			actors = append(actors, mkActor(102, g, plan))
		}
		if g.Chance(0.6) { // concurrent observer
			var plan []cin
			for j := g.Range(1, 3); j > 0; j-- {
				plan = append(plan, cin{K: kit.Choose(g, []int{kGet, kGet, kTTL})})
			}
			actors = append(actors, mkActor(101, g, plan))
		}
		if !h.round(actors) {
			break
		}
		h.between(g, true)
	}
	h.decide("own", true, false)
}

// concStampede: all instances go for a free (or just expired) key at once; then all release at once.
func concStampede(c *kit.Case) {
	g := c.R
	n := g.Range(2, maxInst)
	h := newConc(c, mainSrv, n)
	if !h.learnIDs() {
		h.decide("stampede", true, false)
		return
	}
	rounds := g.Range(1, 2)
	for rd := 0; rd < rounds && !h.stop; rd++ {
		if g.Chance(0.5) {
			for i := 0; i < n; i++ {
				if g.Chance(0.3) {
					h.one(100, cin{K: kSet, I: i, S: kit.Choose(g, secChoices)})
				}
			}
		}
		mark := len(h.recs)
		var actors []*actor
		for i := 0; i < n; i++ {
			actors = append(actors, mkActor(i, g, []cin{{K: kAcq, I: i}}))
		}
		if !h.round(actors) {
			break
		}
		winners := 0
		for _, r := range h.recs[mark:] {
			if r.Out.OK && !r.Out.Err {
				winners++
			}
			if r.Out.Err {
				winners = -100
			}
		}
		if winners >= 0 {
			c.Obs("stampedes", 1)
			if winners > 1 {
				h.viol("C19/stampede/several-winners", fmt.Sprintf("%d of %d simultaneous Acquire calls on a free key succeeded", winners, n))
				break
			}
			if winners == 0 {
				h.viol("C19/stampede/no-winner", fmt.Sprintf("none of %d simultaneous Acquire calls on a free key succeeded", n))
				break
			}
		}
		h.one(101, cin{K: kGet})
		h.one(101, cin{K: kTTL})
		if g.Chance(0.5) {
			// everybody releases at once: only the winner's call may report true
			mark = len(h.recs)
			actors = actors[:0]
			for i := 0; i < n; i++ {
				actors = append(actors, mkActor(i, g, []cin{{K: kRel, I: i}}))
			}
			if !h.round(actors) {
				break
			}
			trues := 0
			for _, r := range h.recs[mark:] {
				if r.Out.OK {
					trues++
				}
			}
			c.Obs("release_stampedes", 1)
			if trues > 1 {
				h.viol("C19/stampede/several-releases-true", fmt.Sprintf("%d simultaneous Release calls reported true", trues))
				break
			}
			h.one(101, cin{K: kGet})
		} else {
			// let the lease run out (or not quite) and stampede again
			ttl := h.storeTTL()
			d := ttl + int64(g.Range(-1, 1))
			if d <= 0 {
				d = 1
			}
			c.Obs("fastforward_to_lease_end_pm_1ms", 1)
			h.one(102, cin{K: kFF, D: d})
			h.one(101, cin{K: kGet})
			if d < ttl {
				// still held for 1 ms: a stampede now must be denied for everyone but the holder
				actors = actors[:0]
				for i := 0; i < n; i++ {
					actors = append(actors, mkActor(i, g, []cin{{K: kAcq, I: i}}))
				}
				if !h.round(actors) {
					break
				}
				h.one(102, cin{K: kFF, D: leaseMs(10) + 1})
			}
		}
	}
	h.decide("stampede", true, false)
}

// concShared: goroutines share instances (a RedisLock is documented as usable
// concurrently: seconds is atomic); SetExpire races with Acquire on the same
// instance, so lease lengths are not asserted inside the history.
func concShared(c *kit.Case) {
	g := c.R
	n := g.Range(1, 4)
	h := newConc(c, mainSrv, n)
	if !h.learnIDs() {
		h.decide("shared", false, false)
		return
	}
	used := make([]map[int]bool, n)
	for i := range used {
		used[i] = map[int]bool{0: true}
	}
	goroutines := g.Range(2, 8)
	rounds := g.Range(1, 2)
	for rd := 0; rd < rounds && !h.stop; rd++ {
		var actors []*actor
		for gi := 0; gi < goroutines; gi++ {
			var plan []cin
			for j := g.Range(1, 3); j > 0; j-- {
				i := g.Intn(n)
				switch g.Pick(45, 30, 25) {
				case 0:
					plan = append(plan, cin{K: kAcq, I: i})
				case 1:
					plan = append(plan, cin{K: kRel, I: i})
				default:
					s := kit.Choose(g, secChoices)
					used[i][s] = true
					plan = append(plan, cin{K: kSet, I: i, S: s})
				}
			}
			actors = append(actors, mkActor(gi, g, plan))
		}
		if g.Chance(0.4) {
			actors = append(actors, mkActor(101, g, []cin{{K: kGet}, {K: kGet}}))
		}
		if !h.round(actors) {
			break
		}
		out := h.one(101, cin{K: kGet})
		// necessary condition on the lease: one of the values this instance was ever given
		if out.Holder >= 0 {
			ttl := h.storeTTL()
			ok := false
			for s := range used[out.Holder] {
				if ttl == leaseMs(s) {
					ok = true
				}
			}
			c.Obs("lease_ttl_readings", 1)
			if !ok {
				h.viol("C19/lease/wrong-ttl/shared-instance", fmt.Sprintf("holder %d has a lease of %d ms, not seconds*1000+500 for any seconds it was configured with", out.Holder, ttl))
			}
		}
	}
	h.decide("shared", false, false)
}

// concOutage: error replies are switched on and off while the goroutines run.
func concOutage(c *kit.Case) {
	g := c.R
	n := g.Range(2, 6)
	// hard outage: the fault stays on for a whole round of many calls, so that the
	// client's breaker opens while other goroutines are still failing
	hard := g.Chance(0.35)
	if hard {
		n = g.Range(4, maxInst)
	}
	h := newConc(c, mainSrv, n)
	if !h.learnIDs() {
		h.decide("outage", true, true)
		return
	}
	rounds := g.Range(1, 2)
	for rd := 0; rd < rounds && !h.stop; rd++ {
		var actors []*actor
		for i := 0; i < n; i++ {
			var plan []cin
			k := g.Range(1, 3)
			if hard && rd == 0 {
				k = g.Range(6, 9)
			}
			for j := k; j > 0; j-- {
				if g.Chance(0.6) {
					plan = append(plan, cin{K: kAcq, I: i})
				} else {
					plan = append(plan, cin{K: kRel, I: i})
				}
			}
			actors = append(actors, mkActor(i, g, plan))
		}
		h.s.dirty = true
		firstOn := g.Bool()
		if hard && rd == 0 {
			h.s.mode.Store(fErrReply)
			ok := h.round(actors)
			h.s.mode.Store(fNone)
			vclock.Advance(11 * time.Second)
			h.s.dirty = false
			c.Obs("conc_hard_outage_rounds", 1)
			if !ok {
				break
			}
			h.between(g, true)
			continue
		}
		stopT := make(chan struct{})
		var tw sync.WaitGroup
		tw.Add(1)
		spins := make([]int, 16)
		for k := range spins {
			spins[k] = g.Range(0, 60)
		}
		go func() {
			// flips the fault until the round is over
			defer tw.Done()
			on := firstOn
			for k := 0; ; k++ {
				if on {
					h.s.mode.Store(fErrReply)
				} else {
					h.s.mode.Store(fNone)
				}
				on = !on
				for s := 0; s <= spins[k%len(spins)]; s++ {
					runtime.Gosched()
				}
				select {
				case <-stopT:
					return
				default:
				}
			}
		}()
		ok := h.round(actors)
		close(stopT)
		tw.Wait()
		h.s.mode.Store(fNone)
		vclock.Advance(11 * time.Second)
		h.s.dirty = false
		if !ok {
			break
		}
		h.between(g, true)
	}
	h.decide("outage", true, true)
}

// ---------------------------------------------------------------- entry

// fam runs one family; with VERIF_C19_TIMING set it prints what the family cost
// (wall, process CPU) to stderr - for budgeting only, never for a verdict.
func fam(t *testing.T, family string, n int, fn func(c *kit.Case)) {
	if os.Getenv("VERIF_C19_TIMING") == "" {
		kit.Run(t, "C19", family, n, fn)
		return
	}
	cpu := func() time.Duration {
		var ru syscall.Rusage
		syscall.Getrusage(syscall.RUSAGE_SELF, &ru)
		return time.Duration(ru.Utime.Nano() + ru.Stime.Nano())
	}
	t0, c0 := time.Now(), cpu()
	kit.Run(t, "C19", family, n, fn)
	fmt.Fprintf(os.Stderr, "c19 timing %-16s cases=%-6d wall=%-8s cpu=%s\n", family, n, time.Since(t0).Round(time.Millisecond), (cpu() - c0).Round(time.Millisecond))
}

func TestVerifC19(t *testing.T) {
	logx.Disable()
	vclock = kit.InstallVClock()
	mainSrv = newSrv()
	flakySrv = newSrv()
	if !mainSrv.store.Ping() || !flakySrv.store.Ping() {
		t.Fatal("cannot reach miniredis")
	}

	fam(t, "seq-pattern", kit.N(3000, 60000), seqPattern)
	fam(t, "seq-random", kit.N(4000, 80000), seqRandom)
	fam(t, "seq-outage", kit.N(1600, 25000), seqOutage)
	fam(t, "seq-lease-grid", kit.N(400, 6000), seqLeaseGrid)
	fam(t, "seq-placement", kit.N(600, 10000), seqPlacement)
	fam(t, "conc-own", kit.N(1500, 30000), concOwn)
	fam(t, "conc-stampede", kit.N(600, 12000), concStampede)
	fam(t, "conc-shared", kit.N(600, 12000), concShared)
	fam(t, "conc-outage", kit.N(500, 10000), concOutage)
	fam(t, "seq-faults", kit.N(256, 5120), seqFaults)
	// last: from its first seeded case on, the process has called stringx.Seed
	nInst := kit.N(24, 600)
	fam(t, "instances", nInst, func(c *kit.Case) { instances(c, nInst) })

	kit.UninstallVClock()
	kit.End()
}
