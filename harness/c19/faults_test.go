package c19

// Family "seq-faults": every kind of failing / odd store interaction of one
// Acquire or Release call, enumerated (not drawn) against every relation the
// calling instance can have to the key.
//
// The statement's clauses under which a failing call is judged:
//   - "Acquire succeeds only if no other instance holds the key unexpired": a call
//     that reports an error, or gets a reply it cannot interpret, never counts as
//     a grant (ok must be false unless the store really shows the instance as the
//     holder with its lease), and whatever it left at the store does not keep the
//     others out for longer than one lease of the caller: the history goes on with
//     the ordinary lock-step model (store untouched, or exactly as if the script
//     had run), another instance is refused 1 ms before that lease ends and
//     admitted at its end.
//   - "Release ... reports false otherwise": a Release that reports an error
//     reports false, and so does one whose reply is not the script's "1"; neither
//     frees a key held by somebody else.
//
// Kinds (case index -> kind x {Acquire, Release} x relation; every combination
// comes up at every seed):
//   error reply to the script command, retriable LOADING reply, GET / SET / DEL
//   failing inside the script, server closed (connection errors), context
//   cancelled before the call, deadline passed before the call, context
//   cancelled inside the call (immediately before its first store command is
//   handed to the transport; when the command has arrived at the server and has
//   not run yet), deadline passing while the command is at the server,
//   the lock key holding a list / a hash (the script's GET fails with WRONGTYPE),
//   replies of an unexpected type or value (status other than OK, integers,
//   bulk strings, arrays - never the success reply of the script concerned),
//   a client hook (redis.WithHook) that clears redis.Nil so that the lock
//   script's "not set" reply reaches RedisLock as (nil, nil), and negative
//   SetExpire values (no lease length is defined for them: nothing about the
//   TTL is asserted, everything else is; a panic is a violation via kit.Run).
// Relations: key free; the caller holds it; another instance holds it; the
// caller held it, its lease ran out and another instance took the key.

import (
	"errors"
	"fmt"
	"math"
	"time"

	red "github.com/redis/go-redis/v9"
	"github.com/zeromicro/go-zero/core/breaker"

	"verifharness/kit"
)

const (
	fkErrReply = iota
	fkLoading
	fkInnerGet
	fkInnerSet
	fkInnerDel
	fkClosed
	fkCxCancelledBefore
	fkCxDeadlineBefore
	fkCxCancelAtClient
	fkCxCancelInFlight
	fkCxDeadlineInFlight
	fkWrongTypeList
	fkWrongTypeHash
	fkOddReply
	fkNilSwallowed
	fkNegativeSeconds
	nFk
)

var fkNames = [...]string{"err-reply", "loading-reply", "inner-get-fails", "inner-set-fails", "inner-del-fails", "server-closed",
	"ctx-cancelled-before", "ctx-deadline-before", "ctx-cancelled-at-first-command", "ctx-cancelled-in-flight", "ctx-deadline-in-flight",
	"wrong-type-list", "wrong-type-hash", "odd-reply", "nil-reply-cleared-by-hook", "negative-seconds"}

var preNames = [...]string{"free", "caller-holds", "other-holds", "caller-expired-other-holds"}

var negativeSecs = []int{-1, -1, -2, -3, -500, -1000, -86400, math.MinInt32, math.MinInt32 - 1, -math.MaxUint32, -math.MaxUint32 - 1, math.MinInt64}

// oddFor draws an odd reply that is not the success reply of the script called.
func oddFor(g *kit.Rand, rel bool) int32 {
	for {
		k := int32(g.Intn(nOdd))
		if (rel && k == oddInt1) || (!rel && k == oddStatusOK) {
			continue
		}
		return k
	}
}

// foreignKeyOp: one Acquire/Release while the lock key holds a value of another
// type (put there by the harness, the key being free in the model).
func (r *seqRun) foreignKeyOp(i int, rel bool, typ string) {
	opname := "acquire"
	var ok bool
	var err error
	if rel {
		opname = "release"
		ok, err = r.lk[i].Release()
	} else {
		ok, err = r.lk[i].Acquire()
	}
	r.log = append(r.log, fmt.Sprintf("%s(%d)=%v%s", map[bool]string{true: "Release", false: "Acquire"}[rel], i, ok, errStr(err)))
	untouched := r.s.mr.Exists(r.key) && r.s.mr.Type(r.key) == typ
	if err != nil {
		r.resync()
		var reply red.Error
		if errors.Is(err, breaker.ErrServiceUnavailable) && r.s.dirty {
			// the client's breaker, opened by the error replies before: nothing was sent
			r.c.Obs("ops_rejected_by_client_breaker", 1)
			if ok {
				r.viol("C19/error/success-reported-with-error", fmt.Sprintf("%s by instance %d returned (true, %v)", opname, i, err))
			} else if !untouched {
				r.viol("C19/error/store-corrupted-after-failed-"+opname, fmt.Sprintf("%s by instance %d was rejected by the client's breaker and the %s at the key changed", opname, i, typ))
			}
			return
		}
		if !errors.As(err, &reply) {
			r.inconclusive(fmt.Sprintf("%s by instance %d on a key holding a %s: infrastructure error %v", opname, i, typ, err))
			return
		}
		r.s.dirty = true
		r.faultOps++
		r.c.Obs("ops_store_error", 1)
		r.c.Obs("ops_store_error_wrong-type-key", 1)
		r.c.Obs("ops_store_error_wrong-type-key_"+opname, 1)
		if ok {
			r.viol("C19/error/success-reported-with-error", fmt.Sprintf("%s by instance %d returned (true, %v)", opname, i, err))
			return
		}
		if !untouched {
			r.viol("C19/error/store-corrupted-after-failed-"+opname, fmt.Sprintf("%s by instance %d failed with %v and changed the %s at the key (now: exists=%v type=%q)", opname, i, err, typ, r.s.mr.Exists(r.key), r.s.mr.Type(r.key)))
		}
		return
	}
	if !r.accounted() {
		r.inconclusive(opname + " returned without error, but " + r.retryEvidence())
		return
	}
	if rel {
		if ok {
			r.viol("C19/release/true-by-non-holder/wrong-type-key", fmt.Sprintf("Release by instance %d returned true although nobody holds the lock (the key holds a %s)", i, typ))
			return
		}
		if !untouched {
			r.viol("C19/release/freed-by-non-holder/wrong-type-key", fmt.Sprintf("Release by instance %d (nobody holds the lock) removed or changed the %s at the key", i, typ))
		}
		r.c.Obs("wrong_type_key_reported_as_false", 1)
		return
	}
	if !ok {
		if !untouched {
			r.viol("C19/acquire/denied-but-store-changed", fmt.Sprintf("denied Acquire by instance %d removed or changed the %s at the key", i, typ))
		}
		r.c.Obs("wrong_type_key_reported_as_denial", 1)
		return
	}
	// granted: nobody held the lock, so the statement allows it - if the instance really holds it now
	st := r.store()
	lease := leaseMs(r.secs[i])
	if !st.exists || st.ttl != lease || st.sub || (r.ids[i] != "" && r.ids[i] != st.val) {
		r.viol("C19/acquire/granted-but-not-stored", fmt.Sprintf("Acquire by instance %d on a key holding a %s returned true, store now %+v (want its id with %d ms)", i, typ, st, lease))
		return
	}
	r.ids[i] = st.val
	r.holder, r.rem = i, lease
	r.c.Obs("acquire_overwrote_wrong_type_key", 1)
}

func seqFaults(c *kit.Case) {
	g := c.R
	combo := c.Index % (nFk * 8)
	// kind varies slowest: a child (index = shard mod shards) meets every kind
	pre := combo % 4
	opRel := (combo/4)%2 == 1
	kind := combo / 8
	pass := c.Index / (nFk * 8)
	if kind == fkClosed && pass%4 != 0 {
		kind = fkErrReply // connection-level outages cost wall-clock retry back-off: every fourth pass only
	}
	s := mainSrv
	if kind == fkClosed {
		if flakySrv.mode.Load() == fClosed {
			flakySrv = newSrv()
		}
		s = flakySrv
	}
	r := newSeqRun(c, s, 3)
	// class of the failing input in violation keys (the wrong-type kinds name theirs themselves)
	switch kind {
	case fkErrReply, fkLoading, fkInnerGet, fkInnerSet, fkInnerDel, fkClosed:
		r.keyClass = "/history-with-store-error"
	case fkCxCancelledBefore, fkCxDeadlineBefore, fkCxCancelAtClient, fkCxCancelInFlight, fkCxDeadlineInFlight:
		r.keyClass = "/history-with-done-context"
	case fkOddReply, fkNilSwallowed:
		r.keyClass = "/history-with-odd-reply"
	case fkNegativeSeconds:
		r.keyClass = "/history-with-negative-seconds"
	}
	p := g.Perm(3)
	a, b, d := p[0], p[1], p[2]
	step := func(f func()) {
		if !r.stop {
			f()
		}
	}
	op := func(i int, rel bool, cx int) {
		if r.stop {
			return
		}
		if rel {
			r.releaseCx(i, cx)
		} else {
			r.acquireCx(i, cx)
		}
	}
	r.log = append(r.log, fmt.Sprintf("[%s on %s, %s]", fkNames[kind], map[bool]string{true: "Release", false: "Acquire"}[opRel], preNames[pre]))
	for i := 0; i < 3; i++ {
		if sec := kit.Choose(g, secChoices); sec != 0 || g.Bool() {
			i, sec := i, sec
			step(func() { r.setExpire(i, sec) })
		}
	}
	if kind == fkNegativeSeconds {
		step(func() { r.setExpire(a, kit.Choose(g, negativeSecs)) })
	}
	into := func() { // how far into the running lease
		if r.holder >= 0 && r.rem > 2 && g.Bool() {
			step(func() { r.ff(1 + g.Int63n(r.rem-2)) })
		}
	}
	switch pre {
	case 0:
		if g.Bool() {
			op(a, false, cxNone)
			op(a, true, cxNone)
		}
	case 1:
		op(a, false, cxNone)
		into()
	case 2:
		op(b, false, cxNone)
		into()
	default:
		op(a, false, cxNone)
		step(func() { r.ff(r.rem + int64(g.Range(0, 1))) })
		op(b, false, cxNone)
		into()
	}
	if r.stop {
		r.conclude()
		return
	}
	swallowed0 := s.cli.swallowed.Load()
	switch kind {
	case fkErrReply, fkLoading, fkInnerGet, fkInnerSet, fkInnerDel, fkClosed, fkOddReply:
		m := map[int]int{fkErrReply: fErrReply, fkLoading: fLoading, fkInnerGet: fInnerGet, fkInnerSet: fInnerSet, fkInnerDel: fInnerDel, fkClosed: fClosed, fkOddReply: fOddReply}[kind]
		if m == fOddReply {
			s.odd.Store(oddFor(g, opRel))
			r.log = append(r.log, "OddReply("+oddNames[s.odd.Load()]+")")
		}
		r.setFault(m)
		op(a, opRel, cxNone)
		if m == fOddReply {
			// every odd reply that is not this script's success reply, to the same call
			for k := int32(0); k < nOdd; k++ {
				if (opRel && k == oddInt1) || (!opRel && k == oddStatusOK) || r.stop {
					continue
				}
				s.odd.Store(k)
				r.log = append(r.log, "OddReply("+oddNames[k]+")")
				op(kit.Choose(g, []int{a, a, b, d}), opRel, cxNone)
			}
		}
		if m != fClosed && m != fLoading && g.Bool() {
			// the others meet the same outage
			if m == fOddReply {
				s.odd.Store(oddFor(g, opRel))
				r.log = append(r.log, "OddReply("+oddNames[s.odd.Load()]+")")
			}
			op(kit.Choose(g, []int{b, d}), opRel, cxNone)
		}
		step(func() { r.heal(true) })
		if s.mode.Load() != fNone {
			r.heal(true)
		}
	case fkCxCancelledBefore, fkCxDeadlineBefore, fkCxCancelAtClient, fkCxCancelInFlight, fkCxDeadlineInFlight:
		cx := map[int]int{fkCxCancelledBefore: cxCancelledBefore, fkCxDeadlineBefore: cxDeadlineBefore, fkCxCancelAtClient: cxCancelAtClient,
			fkCxCancelInFlight: cxCancelInFlight, fkCxDeadlineInFlight: cxDeadlineInFlight}[kind]
		op(a, opRel, cx)
		if g.Bool() {
			op(kit.Choose(g, []int{b, d}), !opRel, cx)
		}
		vclock.Advance(11 * time.Second)
		s.dirty = false
	case fkWrongTypeList, fkWrongTypeHash:
		typ := "list"
		if r.holder >= 0 {
			step(func() { r.ff(r.rem + int64(g.Range(0, 1))) }) // the key must be free: the harness does not overwrite a lock
		}
		if !r.stop {
			if kind == fkWrongTypeHash {
				typ = "hash"
				s.mr.HSet(r.key, "field", "value")
			} else {
				s.mr.Lpush(r.key, "element")
			}
			r.log = append(r.log, "StoreHolds("+typ+")")
		}
		step(func() { r.foreignKeyOp(a, opRel, typ) })
		if r.holder < 0 {
			step(func() { r.foreignKeyOp(kit.Choose(g, []int{b, d}), !opRel, typ) })
		}
		if r.holder < 0 && g.Bool() {
			step(func() { r.foreignKeyOp(a, !opRel, typ) })
		}
		if r.holder < 0 && !r.stop {
			s.mr.Del(r.key)
			r.log = append(r.log, "StoreDel(key)")
		}
		vclock.Advance(11 * time.Second)
		s.dirty = false
	case fkNilSwallowed:
		s.cli.swallowNil.Store(true)
		r.log = append(r.log, "Hook(clears redis.Nil)")
		op(a, opRel, cxNone)
		op(kit.Choose(g, []int{b, d}), false, cxNone)
		op(d, false, cxNone)
		s.cli.swallowNil.Store(false)
		r.log = append(r.log, "Hook(off)")
	case fkNegativeSeconds:
		op(a, opRel, cxNone)
		op(a, false, cxNone)
		op(b, false, cxNone)
	}
	s.cli.swallowNil.Store(false)
	if n := s.cli.swallowed.Load() - swallowed0; n > 0 {
		c.Obs("acquire_replies_nil_without_error", n)
	}
	// the others are not kept out beyond the lease now running (if any), and only the
	// holder can release
	op(d, false, cxNone)
	if h := r.holder; h >= 0 && !r.stop {
		o := b
		if h == b {
			o = d
		}
		step(func() { r.ff(r.rem - 1) })
		op(o, false, cxNone)
		op(o, true, cxNone)
		step(func() { r.ff(1) })
		op(o, false, cxNone)
		op(h, true, cxNone)
		op(o, true, cxNone)
	}
	op(a, false, cxNone)
	op(b, false, cxNone)
	op(a, true, cxNone)
	if !r.stop {
		c.Obs("fault_histories", 1)
		c.Obs("fault_histories_"+fkNames[kind], 1)
	}
	if r.faultOps > 0 {
		c.Obs("histories_with_failed_ops", 1)
	}
	r.conclude()
}
