package c19

// Family "instances": the statement quantifies over "every number of lock
// instances on a key". What tells instances apart is private to RedisLock (an
// id drawn by a helper package when the instance is created), so the family
// creates MANY instances on one key under every condition an application can
// create them in, and then runs the plain mutual-exclusion protocol over all
// of them:
//
//	(every instance in turn takes the free key and gives it back;)
//	one instance (the holder) acquires with a long lease;
//	EVERY other instance's Acquire must report false,
//	EVERY other instance's Release must report false and leave the key as it is,
//	the holder's Release then reports true and the key is gone.
//
// Nothing about the ids themselves is asserted (not their value, not their
// randomness): only the statement's clauses "at most one RedisLock instance
// holds a given key" and "Release frees the key only when called by the current
// holder and reports false otherwise", through the ordinary lock-step model of
// the sequential histories (store inspected after every operation).
//
// Conditions of creation (all public API, all a pure function of the case):
//   - after stringx.Seed(x) has been called in the process (x derived from the
//     case; never the same value twice within a case - replaying one seed
//     replays its stream by definition) or, for the first cases of every child,
//     in a process that has never called it;
//   - back-to-back on one goroutine; concurrently from many goroutines, each
//     locked to its own OS thread (runtime.LockOSThread) and released together
//     from a spin barrier so that they run on different Ps at the same time
//     (GOMAXPROCS is raised to at least 4 for the creation if it is lower);
//   - in bursts separated by two runtime.GC() cycles (whatever go-zero or its
//     helpers keep in a sync.Pool is dropped after two cycles), optionally with
//     a re-Seed (fresh value) between bursts;
//   - in large numbers: 100 to 1600 instances per key.
//
// On the unchanged tree the ids are 16 characters drawn from a 62-letter
// alphabet by one mutex-protected generator: two equal ids among a few
// thousand have probability < 1e-20, so the family cannot fire there.

import (
	"fmt"
	"runtime"
	"sync"
	"sync/atomic"

	"github.com/zeromicro/go-zero/core/stores/redis"
	"github.com/zeromicro/go-zero/core/stringx"

	"verifharness/kit"
)

const (
	imSequential     = iota // one goroutine, back-to-back
	imParallel              // goroutines locked to OS threads, released together
	imBursts                // one goroutine, bursts separated by 2x runtime.GC()
	imParallelBursts        // both
	nIm
)

var imNames = [...]string{"sequential", "parallel-pinned", "gc-bursts", "parallel-pinned-gc-bursts"}

// where an instance came from (witness only)
type origin struct{ burst, goroutine, nth int }

// createParallel creates per[j] instances on goroutine j, all goroutines locked
// to their OS threads and released together.
func createParallel(store *redis.Redis, key string, per []int) [][]*redis.RedisLock {
	G := len(per)
	out := make([][]*redis.RedisLock, G)
	var arrived atomic.Int32
	var goFlag atomic.Bool
	var wg sync.WaitGroup
	for j := 0; j < G; j++ {
		wg.Add(1)
		go func(j int) {
			defer wg.Done()
			runtime.LockOSThread()
			defer runtime.UnlockOSThread()
			arrived.Add(1)
			for spins := 1; !goFlag.Load(); spins++ {
				if spins%200 == 0 {
					runtime.Gosched()
				}
			}
			l := make([]*redis.RedisLock, 0, per[j])
			for k := 0; k < per[j]; k++ {
				l = append(l, redis.NewRedisLock(store, key))
			}
			out[j] = l
		}(j)
	}
	for int(arrived.Load()) < G {
		runtime.Gosched()
	}
	goFlag.Store(true)
	wg.Wait()
	return out
}

func instances(c *kit.Case, nCases int) {
	g := c.R
	s := mainSrv
	key := newKey(c)
	mode := (c.Index + c.Index/8 + c.Index/12) % nIm // every mode in every child for 8 and for 12 children
	// the first quarter of the case list (run first in every child) never calls Seed
	seeded := c.Index >= nCases/4
	K := g.Range(100, 250)
	switch g.Pick(7, 2, 1) {
	case 1:
		K = g.Range(300, 600)
	case 2:
		K = g.Range(1000, 1600)
	}
	bursts := 1
	if mode == imBursts || mode == imParallelBursts {
		bursts = g.Range(2, 5)
	}
	G := 1
	if mode == imParallel || mode == imParallelBursts {
		G = g.Range(2, 16)
	}
	reseed := seeded && bursts > 1 && g.Chance(0.3)

	var log []string
	if seeded {
		v := int64(c.Seed >> 1)
		stringx.Seed(v)
		log = append(log, fmt.Sprintf("stringx.Seed(%d)", v))
		c.Obs("instances_cases_after_seed", 1)
	} else {
		c.Obs("instances_cases_without_seed_in_this_case", 1)
	}
	prevProcs := 0
	if G > 1 && runtime.GOMAXPROCS(0) < 4 {
		prevProcs = runtime.GOMAXPROCS(4)
	}
	var lk []*redis.RedisLock
	var from []origin
	left := K
	for b := 0; b < bursts; b++ {
		m := left / (bursts - b)
		left -= m
		if b > 0 {
			runtime.GC()
			runtime.GC()
			log = append(log, "runtime.GC()x2")
			c.Obs("instances_gc_pairs_between_bursts", 1)
			if reseed {
				v := int64(g.Uint64() >> 1)
				stringx.Seed(v)
				log = append(log, fmt.Sprintf("stringx.Seed(%d)", v))
			}
		}
		if G == 1 {
			for k := 0; k < m; k++ {
				lk = append(lk, redis.NewRedisLock(s.store, key))
				from = append(from, origin{b, 0, k})
			}
			log = append(log, fmt.Sprintf("Create(%d instances, one goroutine)", m))
			continue
		}
		per := make([]int, G)
		for k := 0; k < m; k++ {
			per[k%G]++
		}
		for j, l := range createParallel(s.store, key, per) {
			for k, x := range l {
				lk = append(lk, x)
				from = append(from, origin{b, j, k})
			}
		}
		log = append(log, fmt.Sprintf("Create(%d instances, %d goroutines locked to OS threads, started together, GOMAXPROCS=%d)", m, G, runtime.GOMAXPROCS(0)))
		c.Obs("instances_created_on_pinned_goroutines", int64(m))
	}
	if prevProcs > 0 {
		runtime.GOMAXPROCS(prevProcs)
	}
	K = len(lk)
	c.Obs("instances_cases", 1)
	c.Obs("instances_cases_"+imNames[mode], 1)
	c.Obs("instances_created", int64(K))
	if seeded {
		c.Obs("instances_created_after_seed", int64(K))
	}
	if bursts > 1 {
		c.Obs("instances_created_in_gc_separated_bursts", int64(K))
	}

	r := newSeqRunOver(c, s, key, lk)
	r.compact = true
	r.keyClass = "/many-instances"
	if seeded {
		r.keyClass = "/many-instances-after-seed"
	}
	r.log = append(r.log, log...)
	// the holder: the first instance, or the first of a later burst / goroutine, or any
	h := 0
	switch g.Pick(4, 3, 3) {
	case 1:
		h = g.Intn(K)
	case 2:
		for tries := 0; tries < 8; tries++ {
			if x := g.Intn(K); from[x].nth == 0 {
				h = x
				break
			}
		}
	}
	describe := func(i int) string {
		return fmt.Sprintf("instance %d = #%d of goroutine %d in burst %d", i, from[i].nth, from[i].goroutine, from[i].burst)
	}
	h0, cur := h, h
	r.extra = func() map[string]any {
		return map[string]any{"holder": describe(h), "instance_of_the_failing_call": describe(cur), "creation": log}
	}
	step := func(f func()) {
		if !r.stop {
			f()
		}
	}
	// Round 0: every instance in turn takes the free key and gives it back ("Acquire
	// succeeds if no other instance holds the key", "Release by the holder"). The value each
	// instance leaves at the store is remembered - not to judge it, but to AIM: if two
	// instances ever wrote the same value, the plain protocol is run on exactly that pair
	// first, and only the results of its Acquire/Release calls decide.
	took := 0
	for i := 0; i < K && !r.stop; i++ {
		cur = i
		r.acquire(i, false)
		if !r.stop {
			r.release(i, false)
		}
		if !r.stop {
			took++
		}
	}
	c.Obs("instances_took_free_key_and_released", int64(took))
	if !r.stop {
		first := make(map[string]int, K)
		pairs := 0
		for j := 0; j < K && pairs < 3 && !r.stop; j++ {
			i, dup := first[r.ids[j]]
			if !dup || r.ids[j] == "" {
				first[r.ids[j]] = j
				continue
			}
			pairs++
			c.Obs("instances_pairs_aimed_at", 1)
			r.log = append(r.log, fmt.Sprintf("aimed pair: %s / %s", describe(i), describe(j)))
			h, cur = i, i
			step(func() { r.setExpire(i, 3600) })
			step(func() { r.acquire(i, false) })
			cur = j
			step(func() { r.acquire(j, false) })
			step(func() { r.release(j, false) })
			cur = i
			step(func() { r.release(i, false) })
		}
	}
	// Round 1: the plain protocol over all of them
	if !r.stop {
		h = h0
		r.log = append(r.log, "holder: "+describe(h))
	}
	cur = h
	step(func() { r.setExpire(h, 3600) })
	step(func() { r.acquire(h, false) })
	denied, refused := 0, 0
	for i := 0; i < K && !r.stop; i++ {
		if i == h {
			continue
		}
		cur = i
		r.acquire(i, false)
		if r.stop {
			break
		}
		denied++
	}
	for i := 0; i < K && !r.stop; i++ {
		if i == h {
			continue
		}
		cur = i
		r.release(i, false)
		if r.stop {
			break
		}
		refused++
	}
	cur = h
	step(func() { r.release(h, false) })
	c.Obs("instances_acquire_denied_to_non_holder", int64(denied))
	c.Obs("instances_release_refused_to_non_holder", int64(refused))
	if !r.stop && r.holder < 0 {
		c.Obs("instances_protocols_completed", 1)
	}
	r.conclude()
}
