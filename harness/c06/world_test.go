// Package c06: cache-aside store (DESIGN.md §4 C06).
//
// The real cache.Cache (single node and 2-node cluster through the consistent
// hash) and sqlc.CachedConn run against in-process miniredis instances; the
// "database" is a map read by harness-owned query closures which count and
// gauge queries per cache key. Everything the oracle uses is visible at a
// boundary the harness owns: results/errors of the calls, the query closures,
// and miniredis (all keys with contents and TTLs are scanned after every
// operation; TTLs move only with FastForward).
//
// Faults: database errors (the closures return a sentinel), cache-store outages
// as (a) error replies injected by a miniredis pre-hook on GET/SET/DEL/PING,
// (b) only the writing commands failing, (c) a cutting TCP proxy in front of
// miniredis ("unreachable"). A virtual clock sits behind core/timex so that the
// redis client's breaker holds no wall-clock state; it jumps 11 s after every
// injected outage.
//
// With the context flavour of the API every call runs under a context of its
// own (ops_test.go: background, cancelled / deadline-cancelled right after the
// call returned, value-carrying, cancelled before the call); bursts of
// concurrent readers are spread over several caches / cached conns on the same
// store (seq_test.go mkStore).
//
// The cleaner (failed invalidations are retried by a process-global timing
// wheel on a real 1 s ticker) is the only asynchronous actor. Its DEL commands
// are observed through the pre-hook; keys with a pending retry are "tainted"
// (see seq_test.go).
package c06

import (
	"context"
	"errors"
	"io"
	"net"
	"sync"
	"sync/atomic"
	"testing"
	"time"

	"github.com/alicebob/miniredis/v2"
	"github.com/alicebob/miniredis/v2/server"
	red "github.com/redis/go-redis/v9"
	"github.com/zeromicro/go-zero/core/stores/redis"

	"verifharness/kit"
)

const (
	injectedErr   = "ERR verif injected outage"
	breakerWindow = 11 * time.Second

	upKind      = ""
	outErrors   = "error-replies" // GET/SET/DEL/PING answered with an error
	outWrites   = "writes-fail"   // SET/DEL answered with an error, GET served
	outUnreach  = "unreachable"   // proxy cuts and refuses connections
	healTimeout = 60 * time.Second
)

// outageTexts: the error replies of an injected outage, in rotation.
var outageTexts = []string{injectedErr, injectedErr, "placeholder", injectedErr, injectedErr, "sql: no rows in result set",
	injectedErr, injectedErr, "verif: configured not-found error", injectedErr}

// ---------------------------------------------------------------- proxy

type proxy struct {
	ln     net.Listener
	target string
	mu     sync.Mutex
	down   bool
	conns  map[net.Conn]struct{}
}

func newProxy(target string) (*proxy, error) {
	ln, err := net.Listen("tcp", "127.0.0.1:0")
	if err != nil {
		return nil, err
	}
	p := &proxy{ln: ln, target: target, conns: map[net.Conn]struct{}{}}
	go p.serve()
	return p, nil
}

func (p *proxy) addr() string { return p.ln.Addr().String() }

func (p *proxy) serve() {
	for {
		c, err := p.ln.Accept()
		if err != nil {
			return
		}
		p.mu.Lock()
		if p.down {
			p.mu.Unlock()
			c.Close()
			continue
		}
		u, err := net.Dial("tcp", p.target)
		if err != nil {
			p.mu.Unlock()
			c.Close()
			continue
		}
		p.conns[c] = struct{}{}
		p.conns[u] = struct{}{}
		p.mu.Unlock()
		go p.pipe(c, u)
		go p.pipe(u, c)
	}
}

func (p *proxy) pipe(dst, src net.Conn) {
	io.Copy(dst, src)
	dst.Close()
	src.Close()
	p.mu.Lock()
	delete(p.conns, dst)
	delete(p.conns, src)
	p.mu.Unlock()
}

func (p *proxy) setDown(d bool) {
	p.mu.Lock()
	p.down = d
	if d {
		for c := range p.conns {
			c.Close()
		}
		p.conns = map[net.Conn]struct{}{}
	}
	p.mu.Unlock()
}

// ---------------------------------------------------------------- node

// delRec is one DEL command executed by a node while it was up.
type delRec struct {
	keys   []string
	inOp   bool // a harness-issued go-zero call was in progress when it arrived
	failed bool // answered with the injected error (node was down)
}

type node struct {
	name string
	mr   *miniredis.Miniredis
	px   *proxy
	rds  *redis.Redis // through the proxy; owns the client (hooks, breaker) of this address
	w    *world

	kind    atomic.Value // string: current outage kind
	errText atomic.Value // string: the text of the error replies of the current outage

	mu   sync.Mutex
	dels []delRec
}

func (n *node) outage() string { return n.kind.Load().(string) }

// getFails / setFails / delFails: would this command fail right now?
func (n *node) getFails() bool { k := n.outage(); return k == outErrors || k == outUnreach }
func (n *node) setFails() bool { return n.outage() != upKind }

func (n *node) hook(c *server.Peer, cmd string, args ...string) bool {
	k := n.outage()
	switch cmd {
	case "GET", "PING":
		if k == outErrors {
			c.WriteError(n.errText.Load().(string))
			return true
		}
	case "SET", "SETEX", "SETNX", "PSETEX", "GETEX", "EXPIRE", "PEXPIRE", "PERSIST":
		if k == outErrors || k == outWrites {
			c.WriteError(n.errText.Load().(string))
			return true
		}
	case "DEL", "UNLINK":
		if k == outErrors || k == outWrites {
			n.mu.Lock()
			n.dels = append(n.dels, delRec{keys: append([]string(nil), args...), inOp: n.w.inOp.Load(), failed: true})
			n.mu.Unlock()
			c.WriteError(n.errText.Load().(string))
			return true
		}
		// executed here so that the record is written after the deletion is complete
		cnt := 0
		for _, key := range args {
			if n.mr.Del(key) {
				cnt++
			}
		}
		n.mu.Lock()
		n.dels = append(n.dels, delRec{keys: append([]string(nil), args...), inOp: n.w.inOp.Load()})
		n.mu.Unlock()
		c.WriteInt(cnt)
		return true
	}
	return false
}

// takeDels returns and clears the DEL records.
func (n *node) takeDels() []delRec {
	n.mu.Lock()
	d := n.dels
	n.dels = nil
	n.mu.Unlock()
	return d
}

// ---------------------------------------------------------------- world

type world struct {
	t     *testing.T
	nodes []*node // 0: single node; 1,2: the cluster
	vc    *kit.VClock

	outSeq        int // injected outages so far (selects the text of the error replies)
	inOp          atomic.Bool
	envErrs       atomic.Int64 // network-level driver errors (not a server reply)
	lastEnvErr    atomic.Value
	markedEnvErrs atomic.Int64 // ... of commands issued under hctx
	histSeq       int
}

// drvHook sits innermost in the client's hook chain: a command that ends with
// a network-level error while no fault is injected is trouble of the (heavily
// loaded) environment, never behaviour of the cache.
type drvHook struct{ w *world }

func (h drvHook) DialHook(next red.DialHook) red.DialHook { return next }
func (h drvHook) ProcessHook(next red.ProcessHook) red.ProcessHook {
	return func(ctx context.Context, cmd red.Cmder) error {
		err := next(ctx, cmd)
		if err != nil && !errors.Is(err, red.Nil) {
			if _, isReply := err.(red.Error); !isReply && !errors.Is(err, context.Canceled) {
				h.w.envErrs.Add(1)
				if ctx.Value(markKey{}) != nil {
					h.w.markedEnvErrs.Add(1)
				}
				h.w.lastEnvErr.Store(cmd.Name() + ": " + err.Error())
			}
		}
		return err
	}
}
func (h drvHook) ProcessPipelineHook(next red.ProcessPipelineHook) red.ProcessPipelineHook {
	return next
}

func newWorld(t *testing.T) *world {
	w := &world{t: t}
	w.vc = kit.InstallVClock()
	for _, name := range []string{"N", "A", "B"} {
		mr, err := miniredis.Run()
		if err != nil {
			t.Fatalf("miniredis: %v", err)
		}
		n := &node{name: name, mr: mr, w: w}
		n.kind.Store(upKind)
		n.errText.Store(injectedErr)
		mr.Server().SetPreHook(n.hook)
		px, err := newProxy(mr.Addr())
		if err != nil {
			t.Fatalf("proxy: %v", err)
		}
		n.px = px
		// the first Redis of an address creates the shared client: hooks + breaker
		n.rds = redis.New(px.addr(), redis.WithHook(drvHook{w}))
		ok := false
		for i := 0; i < 3000 && !ok; i++ {
			if ok = n.rds.Ping(); !ok {
				time.Sleep(10 * time.Millisecond)
			}
		}
		if !ok {
			t.Fatalf("node %s does not answer", name)
		}
		w.nodes = append(w.nodes, n)
	}
	return w
}

// setOutage switches the outage kind of a node (upKind lifts it). Lifting
// empties the breaker window and waits (bounded) until a PING gets through;
// false => the store did not come back for the harness itself (inconclusive).
func (w *world) setOutage(n *node, kind string) bool {
	prev := n.outage()
	if prev == kind {
		return true
	}
	if prev == outUnreach {
		n.px.setDown(false)
	}
	if kind == outErrors || kind == outWrites {
		// what a failing store says is up to the store: mostly an ordinary error text, now and then one
		// that reads like go-zero's own sentinels (a store failure stays a store failure whatever its text)
		w.outSeq++
		n.errText.Store(outageTexts[w.outSeq%len(outageTexts)])
	}
	n.kind.Store(kind)
	if kind == outUnreach {
		n.px.setDown(true)
	}
	if kind != upKind {
		return true
	}
	w.vc.Advance(breakerWindow)
	if prev == outUnreach {
		// the pool still holds connections the proxy has cut: use them all up
		for round := 0; round < 3; round++ {
			var wg sync.WaitGroup
			for i := 0; i < 24; i++ {
				wg.Add(1)
				go func() { defer wg.Done(); n.rds.Ping() }()
			}
			wg.Wait()
			w.vc.Advance(breakerWindow)
		}
	}
	ok := false
	deadline := time.Now().Add(healTimeout)
	for !ok && time.Now().Before(deadline) {
		if ok = n.rds.Ping(); !ok {
			w.vc.Advance(breakerWindow)
			time.Sleep(5 * time.Millisecond)
		}
	}
	w.vc.Advance(breakerWindow)
	return ok
}

// reset prepares clean stores and an empty breaker window for the next history.
func (w *world) reset() bool {
	ok := true
	for _, n := range w.nodes {
		if !w.setOutage(n, upKind) {
			ok = false
		}
		n.mr.FlushAll()
		n.takeDels()
	}
	w.vc.Advance(breakerWindow)
	w.envErrs.Store(0)
	w.markedEnvErrs.Store(0)
	return ok
}

// entry is one key as seen by a scan.
type entry struct {
	Val  string        `json:"val"`
	TTL  time.Duration `json:"ttl"`
	Node string        `json:"node"`
}

// scan reads all keys of the given nodes with contents and TTLs.
func (w *world) scan(nodes []*node) (map[string]entry, []string) {
	out := map[string]entry{}
	var dup []string
	for _, n := range nodes {
		for _, k := range n.mr.Keys() {
			// TTL before contents: the cleaner's retry (the only concurrent actor, and it
			// only deletes) may remove the key in between; a key that still had contents
			// afterwards existed when its TTL was read
			ttl := n.mr.TTL(k)
			v, err := n.mr.Get(k)
			if err != nil {
				continue // removed by the cleaner meanwhile (expiry cannot happen: virtual TTL); other types are not ours
			}
			if _, twice := out[k]; twice {
				dup = append(dup, k)
			}
			out[k] = entry{Val: v, TTL: ttl, Node: n.name}
		}
	}
	return out, dup
}

func (w *world) fastForward(d time.Duration) {
	for _, n := range w.nodes {
		n.mr.FastForward(d)
	}
}
