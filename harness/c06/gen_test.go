package c06

import (
	"fmt"
	"time"

	"verifharness/kit"
)

var (
	flavours = []string{"cache-node", "cache-cluster", "sqlc-node", "sqlc-cluster"}
	// values for cache.WithExpiry / cache.WithNotFoundExpiry; absent = option not passed.
	// Non-positive: what an unset configuration field or a -1 sentinel hands to the option.
	absent   = time.Duration(1<<63 - 1)
	expiries = []time.Duration{absent, absent, absent, 0, -1, -time.Second, 300 * time.Millisecond, 999 * time.Millisecond, time.Second, time.Second, 2 * time.Second, 2 * time.Second,
		7 * time.Second, 7 * time.Second, 20 * time.Second, 20 * time.Second, 100 * time.Second, 100 * time.Second, time.Hour, time.Hour}
	nfExps = []time.Duration{absent, absent, absent, 0, -1, -time.Minute, 300 * time.Millisecond, 999 * time.Millisecond, time.Second, time.Second, 3 * time.Second, 3 * time.Second,
		10 * time.Second, 10 * time.Second, 40 * time.Second, 40 * time.Second}
	burstExps = []time.Duration{absent, absent, 0, -1, 300 * time.Millisecond, time.Second, 7 * time.Second, 7 * time.Second, 20 * time.Second, 20 * time.Second,
		100 * time.Second, 100 * time.Second, time.Hour, time.Hour}
	setExps = []time.Duration{400 * time.Millisecond, time.Second, 1500 * time.Millisecond, 3 * time.Second, 10 * time.Second, 90 * time.Second}
)

func genConfig(r *kit.Rand) config {
	cfg := config{Flavour: kit.Choose(r, flavours), StrPK: r.Chance(0.3), NoCtx: r.Chance(0.25)}
	cfg.setExpiries(kit.Choose(r, expiries), kit.Choose(r, nfExps))
	return cfg
}

func (c *config) setExpiries(e, ne time.Duration) {
	c.E, c.HasE, c.NE, c.HasNE = e, e != absent, ne, ne != absent
	if !c.HasE {
		c.E = 0
	}
	if !c.HasNE {
		c.NE = 0
	}
}

func isSQL(cfg config) bool { return cfg.Flavour == "sqlc-node" || cfg.Flavour == "sqlc-cluster" }
func isCluster(cfg config) bool {
	return cfg.Flavour == "cache-cluster" || cfg.Flavour == "sqlc-cluster"
}

// ffChoices places clock advances on the expiry boundaries of the configuration.
func ffChoices(cfg config) []time.Duration {
	nlo, nhi := envelope(cfg.nfExpiry())
	elo, ehi := envelope(cfg.expiry())
	c := []time.Duration{time.Second, 500 * time.Millisecond, cfg.nfExpiry() / 2, nlo, nhi, cfg.expiry() / 2, elo - time.Second, elo, ehi, ehi + 6*time.Second}
	out := c[:0]
	for _, d := range c {
		if d > 0 {
			out = append(out, d)
		}
	}
	return out
}

// genCtx draws the kind of context a call runs under (API with context).
// pre: may the context be dead before the call (never for a bare del: what
// becomes of a refused invalidation is outside the statement).
func genCtx(r *kit.Rand, cfg config, pre bool) string {
	if cfg.NoCtx {
		return ctxBG
	}
	wPre := 0
	if pre {
		wPre = 3
	}
	return []string{ctxBG, ctxCancel, ctxDeadline, ctxValues, ctxPre}[r.Pick(30, 32, 20, 15, wPre)]
}

type genState struct {
	dbFail bool
	out    bool
}

// genOp draws one op. faults: 0 none, 1 database errors and cache outages.
func genOp(r *kit.Rand, cfg config, g *genState, faults bool, unreach bool) op {
	sql := isSQL(cfg)
	wIndex, wFault := 0, 0
	if sql {
		wIndex = 22
	}
	if faults {
		wFault = 8
	}
	if g.dbFail || g.out { // a fault in place is lifted soon
		wFault = 30
	}
	o := op{Slot: r.Intn(nSlots), Name: kit.Choose(r, names)}
	switch r.Pick(30, wIndex, 5, 5, 4, 16, 5, 10, wFault) {
	case 0:
		o.K = "read"
		o.Exp = !sql && r.Chance(0.3)
		o.Panic = r.Chance(0.02)
		o.NF = genShape(r)
	case 1:
		o.K = "index"
		o.Panic = r.Chance(0.02)
		o.NF = genShape(r)
	case 2:
		o.K = "get"
		o.IsI = sql && r.Chance(0.3)
	case 3:
		o.K = "set"
		o.IsI = sql && r.Chance(0.3)
		o.Good = r.Chance(0.6)
	case 4:
		o.K = "setexp"
		o.IsI = sql && r.Chance(0.2)
		o.Good = r.Chance(0.6)
		o.D = kit.Choose(r, setExps)
		if r.Chance(0.1) {
			o.D = time.Duration(-r.Intn(2)) * time.Second
		}
	case 5:
		o.K = "write"
		o.Mut = []string{"upsert", "bump", "delete"}[r.Pick(4, 4, 3)]
	case 6:
		o.K = "del"
		o.IsI = sql && r.Chance(0.3)
	case 7:
		o.K = "ff"
		o.D = kit.Choose(r, ffChoices(cfg))
	case 8:
		switch {
		case g.dbFail:
			o.K, o.On, g.dbFail = "dberr", false, false
		case g.out:
			o.K, o.Node, o.Kind, g.out = "outage", -1, upKind, false
		case r.Chance(0.45):
			o.K, o.On, g.dbFail = "dberr", true, true
		default:
			o.K, g.out = "outage", true
			o.Node = -1
			if isCluster(cfg) && r.Chance(0.5) {
				o.Node = r.Intn(2)
			}
			o.Kind = []string{outErrors, outWrites}[r.Pick(3, 2)]
			if unreach && r.Chance(0.25) {
				o.Kind = outUnreach
			}
		}
	}
	switch o.K {
	case "read", "index", "get", "set", "setexp", "write":
		o.Ctx = genCtx(r, cfg, true)
	case "del":
		o.Ctx = genCtx(r, cfg, false)
	}
	return o
}

func genOps(r *kit.Rand, cfg config, n int, faults, unreach bool) []op {
	g := &genState{}
	ops := make([]op, 0, n)
	for i := 0; i < n; i++ {
		ops = append(ops, genOp(r, cfg, g, faults, unreach))
	}
	return ops
}

// sweep lifts every fault and reads every key once.
func sweep(cfg config, wait bool) []op {
	ops := []op{{K: "dberr", On: false}, {K: "outage", Node: -1, Kind: upKind}}
	if wait {
		ops = append(ops, op{K: "waitcleaner"})
	}
	for s := 0; s < nSlots; s++ {
		ops = append(ops, op{K: "read", Slot: s})
	}
	if isSQL(cfg) {
		for _, nm := range names {
			ops = append(ops, op{K: "index", Name: nm})
		}
	}
	return ops
}

// genTaint: populate, fail an invalidation during an outage, lift, read while
// tainted, wait for the cleaner's retry, carry on.
func genTaint(r *kit.Rand, cfg config) []op {
	g := &genState{}
	var ops []op
	for s := 0; s < nSlots; s++ {
		if r.Chance(0.7) {
			ops = append(ops, op{K: "write", Mut: "upsert", Slot: s, Name: names[s], Ctx: genCtx(r, cfg, false)})
		}
	}
	for i, n := 0, r.Range(3, 8); i < n; i++ {
		o := genOp(r, cfg, g, false, false)
		if o.K == "ff" || o.K == "del" {
			o = op{K: "read", Slot: r.Intn(nSlots), Ctx: genCtx(r, cfg, false)}
		}
		ops = append(ops, o)
	}
	out := op{K: "outage", Node: -1, Kind: []string{outErrors, outWrites, outUnreach}[r.Pick(4, 3, 2)]}
	if isCluster(cfg) && r.Chance(0.5) {
		out.Node = r.Intn(2)
	}
	ops = append(ops, out)
	var touched []op
	for i, n := 0, r.Range(1, 2); i < n; i++ {
		w := op{K: "write", Slot: r.Intn(nSlots), Name: kit.Choose(r, names), Mut: []string{"upsert", "bump", "delete"}[r.Pick(3, 4, 3)]}
		if r.Chance(0.15) {
			w = op{K: "del", Slot: w.Slot, Name: w.Name}
		}
		// the write whose invalidation fails runs under the context of a request:
		// mostly one that is dead by the time the cleaner retries
		w.Ctx = []string{ctxBG, ctxCancel, ctxDeadline, ctxValues}[r.Pick(20, 45, 25, 10)]
		ops = append(ops, w)
		touched = append(touched, op{K: "read", Slot: w.Slot, Ctx: genCtx(r, cfg, false)})
		if isSQL(cfg) {
			touched = append(touched, op{K: "index", Name: w.Name, Ctx: genCtx(r, cfg, false)}, op{K: "index", Name: names[w.Slot], Ctx: genCtx(r, cfg, false)})
		}
	}
	for i, n := 0, r.Intn(3); i < n; i++ {
		ops = append(ops, kit.Choose(r, touched))
	}
	ops = append(ops, op{K: "outage", Node: -1, Kind: upKind})
	for i, n := 0, r.Intn(4); i < n; i++ {
		ops = append(ops, kit.Choose(r, touched))
	}
	ops = append(ops, op{K: "waitcleaner"})
	for i, n := 0, r.Range(3, 8); i < n; i++ {
		if r.Chance(0.5) {
			ops = append(ops, kit.Choose(r, touched))
		} else {
			ops = append(ops, genOp(r, cfg, g, false, false))
		}
	}
	return ops
}

// runHistory executes ops (+ the final sweep) and reports signature/observations.
func runHistory(w *world, c *kit.Case, cfg config, ops []op, wait bool) *hist {
	h := newHist(w, c, cfg)
	all := append(append([]op(nil), ops...), sweep(cfg, wait)...)
	for _, o := range all {
		if h.dead || c.Violated() && h.staleReads == 0 {
			break
		}
		h.step(o)
	}
	if !h.dead {
		// leave no outage behind for the next history
		for _, n := range h.nodes {
			w.setOutage(n, upKind)
		}
	}
	c.Evals(1)
	c.Obs("histories", 1)
	c.Obs("ops", int64(len(h.log)))
	c.Obs("cache_hits", int64(h.hits))
	c.Obs("cache_misses", int64(h.misses))
	c.Obs("invalidations_of_present_entries", int64(h.invalidated))
	c.Obs("entries_expired_by_clock", int64(h.expired))
	c.Obs("absent_row_reads", int64(h.nfReads))
	nontrivial := h.hits > 0 && (h.invalidated > 0 || h.expired > 0 || h.fault > 0)
	parts := []any{cfg.Flavour, cfg.E, cfg.NE, cfg.HasE, cfg.HasNE, cfg.StrPK}
	for _, s := range h.log {
		parts = append(parts, s)
	}
	c.Sig(nontrivial, parts...)
	return h
}

func sample(c *kit.Case, class string, max int, h *hist) {
	c.Sample(class, max, map[string]any{"config": h.cfg, "ops": h.log,
		"observed": fmt.Sprintf("hits=%d misses=%d invalidated=%d expired=%d faults=%d stale_reads=%d outage_reads=%d dberr_reads=%d",
			h.hits, h.misses, h.invalidated, h.expired, h.fault, h.staleReads, h.outageReads, h.dbErrReads)})
}
