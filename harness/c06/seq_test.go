package c06

import (
	"context"
	"encoding/json"
	"errors"
	"fmt"
	"sort"
	"strings"
	"time"

	"github.com/zeromicro/go-zero/core/stores/cache"
	"github.com/zeromicro/go-zero/core/stores/redis"
	"github.com/zeromicro/go-zero/core/stores/sqlc"

	"verifharness/kit"
)

// kStale is the key of the design-level corner (DESIGN §4 C06): a read served
// from an entry whose invalidation failed during a cache outage, before the
// cleaner's retry.
const kStale = "C06/stale-after-failed-invalidate"

type config struct {
	Flavour string `json:"flavour"` // cache-node | cache-cluster | sqlc-node | sqlc-cluster
	// E / NE: the values handed to cache.WithExpiry / cache.WithNotFoundExpiry when
	// HasE / HasNE (option absent otherwise). Non-positive values - an unset
	// configuration field, a -1 sentinel - stand for go-zero's defaults (7 d / 1 min).
	E     time.Duration `json:"expiry"`
	NE    time.Duration `json:"not_found_expiry"`
	HasE  bool          `json:"with_expiry_option"`
	HasNE bool          `json:"with_not_found_expiry_option"`
	StrPK bool          `json:"string_primary_keys"`
	NoCtx bool          `json:"api_without_context"`
}

func (c config) expiry() time.Duration {
	if c.E <= 0 {
		return defE
	}
	return c.E
}
func (c config) nfExpiry() time.Duration {
	if c.NE <= 0 {
		return defNE
	}
	return c.NE
}

type kstate struct {
	node     *node
	polluted bool     // explicitly set to something the database does not hold
	pending  int      // failed invalidations whose retry by the cleaner has not been observed
	stale    []string // contents the key held when those invalidations failed
	lo, hi   time.Duration
	class    string
	nfShape  string // the marker the key holds was written after a query that reported the absent row in this shape ("" : not a marker of this history's reads)
}

// wr: the model expects the op to (possibly) write this key.
type wr struct {
	class string
	d     time.Duration // setexp: requested expiry
	gap   time.Duration // primary entry written through the index path: +5 s allowed
	must  string        // non-empty: the key HAS to hold an entry after the op (violation key otherwise)
	shape string        // ... and the shape the query reported an absent row in
}

type hist struct {
	w      *world
	c      *kit.Case
	cfg    config
	st     store
	sts    []store  // bursts: all caches / cached conns the readers are spread over (sts[0] == st)
	made   []string // ... and how each was constructed
	db     *fakeDB
	nodes  []*node
	prefix string
	ks     map[string]*kstate
	prev   map[string]entry
	log    []string
	dead   bool
	pend   []pendViol

	panicked                                  any // what the last call panicked with (nil: it returned)
	taintAt                                   time.Time
	taintCtxDead                              bool // an invalidation failed under a context that was cancelled once the call returned
	hits, misses, invalidated, expired, fault int
	staleReads, outageReads, dbErrReads       int
	nfReads                                   int // uncached reads of an absent row (any shape)
}

func (h *hist) P(slot int) string    { return h.keyer(h.db.pk(slot)) }
func (h *hist) I(name string) string { return h.prefix + "i:" + name }
func (h *hist) keyer(primary any) string {
	return fmt.Sprintf("%sp:%v", h.prefix, primary)
}

func newHist(w *world, c *kit.Case, cfg config) *hist {
	w.histSeq++
	h := &hist{w: w, c: c, cfg: cfg, prefix: fmt.Sprintf("h%d:", w.histSeq), ks: map[string]*kstate{}, prev: map[string]entry{}}
	if !w.reset() {
		c.Inconclusive("store did not come back before the history")
		h.dead = true
		return h
	}
	h.db = &fakeDB{strPK: cfg.StrPK, q: map[string]int{}}
	switch cfg.Flavour {
	case "cache-node":
		h.nodes = w.nodes[:1]
		h.db.nf = errNF
	case "cache-cluster":
		h.nodes = w.nodes[1:]
		h.db.nf = errNF
	case "sqlc-node":
		h.nodes = w.nodes[:1]
		h.db.nf = sqlc.ErrNotFound
	case "sqlc-cluster":
		h.nodes = w.nodes[1:]
		h.db.nf = sqlc.ErrNotFound
	default:
		panic("flavour " + cfg.Flavour)
	}
	var how string
	h.st, how = h.mkStore(false)
	h.sts, h.made = []store{h.st}, []string{how}
	h.locateKeys()
	return h
}

// mkStore builds one more cache / cached conn of the history's flavour over
// the history's store nodes, the way applications build them (one per model
// struct, all on the same Redis). alt selects the other constructor an
// application may use for the same store: a one-node cluster configuration
// (what goctl-generated models pass to sqlc.NewConn / cache.New) instead of
// NewNodeConn / NewNode on the *redis.Redis. The cache flavours get the
// barrier the application shares between its caches (var barrier); the sqlc
// constructors take theirs from go-zero.
func (h *hist) mkStore(alt bool) (store, string) {
	w, cfg := h.w, h.cfg
	ctx := hctx
	if cfg.NoCtx {
		ctx = nil
	}
	var opts []cache.Option
	if cfg.HasE {
		opts = append(opts, cache.WithExpiry(cfg.E))
	}
	if cfg.HasNE {
		opts = append(opts, cache.WithNotFoundExpiry(cfg.NE))
	}
	conf := func(nodes []*node) cache.ClusterConf {
		var cc cache.ClusterConf
		for _, n := range nodes {
			cc = append(cc, cache.NodeConf{RedisConf: redis.RedisConf{Host: n.px.addr(), Type: redis.NodeType, NonBlock: true}, Weight: 100})
		}
		return cc
	}
	switch {
	case cfg.Flavour == "cache-node" && alt:
		return &cacheStore{c: cache.New(conf(w.nodes[:1]), barrier, cstat, errNF, opts...), db: h.db, ctx: ctx}, "cache.New(one-node conf, shared barrier)"
	case cfg.Flavour == "cache-node":
		return &cacheStore{c: cache.NewNode(w.nodes[0].rds, barrier, cstat, errNF, opts...), db: h.db, ctx: ctx}, "cache.NewNode(rds, shared barrier)"
	case cfg.Flavour == "cache-cluster":
		return &cacheStore{c: cache.New(conf(w.nodes[1:]), barrier, cstat, errNF, opts...), db: h.db, ctx: ctx}, "cache.New(two-node conf, shared barrier)"
	case cfg.Flavour == "sqlc-node" && alt:
		return &sqlStore{cc: sqlc.NewConn(passDB, conf(w.nodes[:1]), opts...), db: h.db, ctx: ctx}, "sqlc.NewConn(one-node conf)"
	case cfg.Flavour == "sqlc-node":
		return &sqlStore{cc: sqlc.NewNodeConn(passDB, w.nodes[0].rds, opts...), db: h.db, ctx: ctx}, "sqlc.NewNodeConn(rds)"
	case cfg.Flavour == "sqlc-cluster":
		return &sqlStore{cc: sqlc.NewConn(passDB, conf(w.nodes[1:]), opts...), db: h.db, ctx: ctx}, "sqlc.NewConn(two-node conf)"
	}
	panic("flavour " + cfg.Flavour)
}

// locateKeys finds the node of every key of this history by setting a probe
// through the store and looking where it landed.
func (h *hist) locateKeys() {
	var keys []string
	for s := 0; s < nSlots; s++ {
		keys = append(keys, h.P(s))
	}
	for _, nm := range names {
		keys = append(keys, h.I(nm))
	}
	for s := 0; s < nSlots; s++ {
		keys = append(keys, h.I(fmt.Sprintf("own%d", s)))
	}
	for _, k := range keys {
		st := &kstate{node: h.nodes[0]}
		h.ks[k] = st
		if len(h.nodes) == 1 {
			continue
		}
		if err := h.st.set(k, 1); err != nil {
			h.c.Inconclusive("probe set failed: " + err.Error())
			h.dead = true
			return
		}
		for _, n := range h.nodes {
			if n.mr.Exists(k) {
				st.node = n
			}
		}
	}
	for _, n := range h.nodes {
		n.mr.FlushAll()
		n.takeDels()
	}
}

func (h *hist) state(k string) *kstate {
	st := h.ks[k]
	if st == nil {
		st = &kstate{node: h.nodes[0]}
		for _, n := range h.nodes {
			if n.mr.Exists(k) {
				st.node = n
			}
		}
		h.ks[k] = st
	}
	return st
}

func (h *hist) tainted(keys ...string) bool {
	for _, k := range keys {
		if k != "" && h.state(k).pending > 0 {
			return true
		}
	}
	return false
}

// isStale: does e hold what the key held when an invalidation of it failed?
func (h *hist) isStale(k string, e entry) bool {
	if k == "" {
		return false
	}
	for _, v := range h.state(k).stale {
		if v == e.Val {
			return true
		}
	}
	return false
}

// storeTrouble: while only the writing commands of a node fail, a read may still
// be answered with a store error (the redis client's breaker opens on the failed
// writes, or a failing SET is passed on): legitimate, nothing else to check.
func (h *hist) storeTrouble(err error, keys ...string) bool {
	if err == nil || errors.Is(err, h.st.notFound()) || errors.Is(err, errDB) {
		return false
	}
	for _, k := range keys {
		if k != "" && h.state(k).node.outage() == outWrites {
			return true
		}
	}
	return false
}

// envTrouble counts the network-level driver errors attributable to the
// harness's own calls: exactly (marked context) or, with the context-free API,
// every such error of the process (the cleaner's included).
func (h *hist) envTrouble() int64 {
	if h.cfg.NoCtx {
		return h.w.envErrs.Load()
	}
	return h.w.markedEnvErrs.Load()
}

func (h *hist) anyDown() bool {
	for _, n := range h.nodes {
		if n.outage() != upKind {
			return true
		}
	}
	return false
}

func (h *hist) dbRow(slot int) *row {
	if slot < 0 || h.db.rows[slot] == nil {
		return nil
	}
	r := *h.db.rows[slot]
	return &r
}

// call runs one go-zero call with the in-op flag set (DEL commands arriving
// meanwhile are attributed to the call, not to the cleaner).
//
// With the context flavour of the API the call runs under a context of the
// op's kind; what a caller does with its context once the call returned
// (cancel it) happens right after the return.
func (h *hist) call(o op, fn func()) {
	after := func() {}
	if !h.cfg.NoCtx {
		var ctx context.Context
		ctx, after = opCtx(o.Ctx, h.prefix)
		h.st.use(ctx)
		if o.Ctx != ctxBG {
			h.c.Obs("calls_under_ctx_"+o.Ctx, 1)
		}
	}
	h.panicked = nil
	h.db.panicOnce = o.Panic
	h.db.shape = o.NF
	defer func() {
		// a panic leaving a go-zero call is recovered the way a request handler's
		// recover middleware does; the op decides what it means
		h.panicked = recover()
		h.db.panicOnce = false
		h.db.shape = nfBare
		h.w.inOp.Store(false)
		after()
		if !h.cfg.NoCtx {
			h.st.use(hctx)
		}
		if h.panicked != nil && o.K != "read" && o.K != "index" {
			panic(h.panicked) // nothing in the statement speaks about it: harness error, as before
		}
	}()
	h.w.inOp.Store(true)
	fn()
}

// panickedOp judges a call that ended with a panic. The injected panic of the
// query closure (op.Panic) is the caller's own bug passing through: nothing is
// demanded of that call - but the key must stay readable, later reads are held
// to the ordinary oracle. Any other panic is go-zero failing the read.
func (h *hist) panickedOp(o op, what string, res map[string]any) bool {
	if h.panicked == nil {
		return false
	}
	if o.Panic && h.panicked == any(errLoaderPanic) {
		h.c.Obs("loader_panics_recovered", 1)
		return true
	}
	res["panic"] = fmt.Sprint(h.panicked)
	h.viol("C06/coherence/read-panicked/"+what, fmt.Sprintf("%s panicked: %v", o.String(), h.panicked), res)
	return true
}

// staleEmitted caps the known-finding reports per case, so that they can never
// use up the per-case violation budget of the kit and hide something else.
var staleEmitted = map[string]int{}

func (h *hist) viol(key, what string, extra map[string]any) {
	if key == kStale {
		staleEmitted[h.c.ID]++
		if staleEmitted[h.c.ID] > 2 {
			return
		}
	}
	wit := map[string]any{"config": h.cfg, "ops": h.log, "failing_op_index": len(h.log) - 1, "before_op": h.prev,
		"db": fmt.Sprint(h.db.rows[0], h.db.rows[1], h.db.rows[2]), "db_failing": h.db.fail}
	for k, v := range extra {
		wit[k] = v
	}
	var out []string
	for _, n := range h.nodes {
		out = append(out, n.name+"="+n.outage())
	}
	wit["outages"] = out
	// buffered until the op is known not to have been disturbed by the environment
	h.pend = append(h.pend, pendViol{key, what, wit})
}

type pendViol struct {
	key, what string
	wit       map[string]any
}

// flush reports (or, after environment trouble, drops) the buffered violations.
func (h *hist) flush(drop bool) {
	for _, v := range h.pend {
		if !drop {
			h.c.Viol(v.key, v.what, v.wit)
		}
	}
	h.pend = nil
}

// absorbDels consumes the DEL records of all nodes. expected holds, per key, the
// number of DEL commands the harness call that just returned has issued itself
// (nil outside write/del ops); every other executed DEL is the cleaner's retry.
func (h *hist) absorbDels(expected map[string]int) {
	seen := false
	for _, n := range h.nodes {
		for _, rec := range n.takeDels() {
			seen = true
			if rec.failed {
				continue
			}
			for _, k := range rec.keys {
				if expected[k] > 0 {
					expected[k]--
					continue
				}
				if st := h.ks[k]; st != nil && st.pending > 0 {
					st.pending--
					if st.pending == 0 {
						st.stale = nil
					}
					h.c.Obs("cleaner_retries_observed", 1)
				}
			}
		}
	}
	if seen && expected == nil {
		h.prev, _ = h.w.scan(h.nodes)
	}
}

func vp(e entry) string {
	if e.Val == "*" {
		return "placeholder"
	}
	return "value"
}

func resStr(got any, err error) string {
	if err != nil {
		return "error: " + err.Error()
	}
	return fmt.Sprint(got)
}

func (h *hist) sameResult(got row, err error, want *row) bool {
	if want == nil {
		return err != nil && errors.Is(err, h.st.notFound())
	}
	return err == nil && got == *want
}

// servedFrom: is (got, err) what the cached entry e holds?
func (h *hist) servedFrom(e entry, got row, err error) bool {
	if e.Val == "*" {
		return err != nil && errors.Is(err, h.st.notFound())
	}
	r, ok := decodeRow(e.Val)
	return ok && err == nil && got == r
}

func decodeAny(s string) any {
	dec := json.NewDecoder(strings.NewReader(s))
	dec.UseNumber()
	var v any
	if dec.Decode(&v) != nil {
		return nil
	}
	return v
}

// checkScan compares the state of all nodes after an op with the model.
func (h *hist) checkScan(written map[string]wr, mustAbsent map[string]string, ff bool) {
	post, dup := h.w.scan(h.nodes)
	for _, k := range dup {
		h.viol("C06/cluster/key-on-two-nodes", "key "+k+" present on both cache nodes", map[string]any{"after_op": post})
	}
	keys := make([]string, 0, len(post))
	for k := range post {
		keys = append(keys, k)
	}
	sort.Strings(keys)
	_, globalHi := envelope(h.cfg.expiry())
	globalHi += 5 * time.Second
	for _, k := range keys {
		e := post[k]
		st := h.state(k)
		if why, bad := mustAbsent[k]; bad {
			h.viol(why, fmt.Sprintf("key %s holds %q (ttl %v) after the op", k, e.Val, e.TTL), map[string]any{"after_op": post})
		}
		p, had := h.prev[k]
		rewritten := !ff && (!had || p.Val != e.Val || p.TTL != e.TTL)
		checkLo := false
		if rewritten {
			if w, ok := written[k]; ok {
				switch {
				case w.class == "setexp":
					st.lo, st.hi = envelope(w.d)
					st.class = w.class
				case w.class == "setexp-nonpositive":
					st.lo, st.hi, st.class = 0, globalHi, w.class
				case e.Val == "*":
					st.lo, st.hi = envelope(h.cfg.nfExpiry())
					st.class = "placeholder"
				default:
					st.lo, st.hi = envelope(h.cfg.expiry())
					st.hi += w.gap
					st.class = w.class
				}
				checkLo = st.class != "setexp-nonpositive"
				h.c.Obs("entries_written", 1)
				// written under an expiry option that is non-positive (defaults expected) / below one second (rounded up)
				opt, has := h.cfg.E, h.cfg.HasE
				if st.class == "placeholder" {
					opt, has = h.cfg.NE, h.cfg.HasNE
				}
				switch {
				case st.class == "setexp" || !has:
				case opt <= 0:
					h.c.Obs("entries_written_nonpositive_option_"+rowOrMarker(st.class), 1)
				case opt < time.Second:
					h.c.Obs("entries_written_subsecond_option_"+rowOrMarker(st.class), 1)
				}
			} else {
				st.lo, st.hi, st.class = 0, globalHi, "unmodelled"
				h.c.Obs("unmodelled_writes", 1)
			}
		}
		switch {
		case e.TTL <= 0:
			h.viol("C06/ttl/persistent-key/"+st.class, fmt.Sprintf("key %s = %q has no TTL", k, e.Val), map[string]any{"after_op": post})
		case e.TTL > st.hi:
			h.viol("C06/ttl/above-envelope/"+st.class, fmt.Sprintf("key %s ttl %v > %v", k, e.TTL, st.hi), map[string]any{"after_op": post})
		case checkLo && e.TTL < st.lo:
			h.viol("C06/ttl/below-envelope/"+st.class, fmt.Sprintf("key %s ttl %v < %v", k, e.TTL, st.lo), map[string]any{"after_op": post})
		}
		h.c.Obs("ttl_checks", 1)
	}
	// an uncached read on a healthy store leaves what the query returned in the cache
	mk := make([]string, 0, len(written))
	for k := range written {
		mk = append(mk, k)
	}
	sort.Strings(mk)
	for _, k := range mk {
		w := written[k]
		if w.must == "" {
			continue
		}
		e, ok := post[k]
		if !ok {
			h.viol(w.must, fmt.Sprintf("key %s holds nothing after the read that had to load it: the next read will query the database again", k), map[string]any{"after_op": post})
			continue
		}
		h.c.Obs("uncached_reads_cached_afterwards", 1)
		if e.Val == "*" {
			h.state(k).nfShape = shapeName(w.shape)
			h.c.Obs("markers_written_for_shape_"+shapeName(w.shape), 1)
		}
	}
	for k := range h.prev {
		if _, still := post[k]; !still {
			h.state(k).polluted = false
			h.state(k).nfShape = ""
			if ff {
				h.expired++
			}
		}
	}
	h.prev = post
}

func rowOrMarker(class string) string {
	if class == "placeholder" {
		return "marker"
	}
	return "row"
}
