package c06

import (
	"errors"
	"fmt"
	"sort"
	"strings"

	"verifharness/kit"
)

func keyClass(h *hist, key string) string {
	if strings.HasPrefix(key, h.prefix+"i:") {
		return "index-key"
	}
	return "primary-key"
}

func slotOfKey(h *hist, key string) int {
	for s := 0; s < nSlots; s++ {
		if key == h.P(s) || key == h.I(names[s]) {
			return s
		}
	}
	return -1
}

// checkBurst decides one burst of concurrent readers (interval oracle).
func checkBurst(h *hist, d *burstDB, c *kit.Case, mode string, readers []*rRec) {
	// one more, sequential, reader per key after the burst: served from the cache if anything was cached
	wf := writesFail(mode)
	if mode != "outage" && !wf {
		seen := map[string]bool{}
		for _, rr := range readers[:len(readers):len(readers)] {
			if seen[rr.Key] || rr.Kind == "index" {
				continue
			}
			seen[rr.Key] = true
			fr := &rRec{ID: len(readers), Kind: "read", Key: rr.Key, Late: true, Conn: len(readers) % len(h.sts), ReuseOf: -1}
			fr.st = h.sts[fr.Conn]
			fr.Inv = kit.Stamp()
			fr.Got, fr.err = burstRead(hctx, h, d, fr, slotOfKey(h, rr.Key), func() float64 { return 1 }, false, new(row))
			fr.Ret = kit.Stamp()
			readers = append(readers, fr)
		}
	}
	var qs []*qRec
	byQid := map[int64]*qRec{}
	for _, rr := range readers {
		if rr.err != nil {
			rr.Err = rr.err.Error()
		}
		for _, q := range rr.queries {
			qs = append(qs, q)
			byQid[q.Qid] = q
		}
	}
	sort.Slice(qs, func(i, j int) bool { return qs[i].Start < qs[j].Start })
	wit := map[string]any{"config": h.cfg, "mode": mode, "conns": h.made, "readers": readers, "queries": qs}
	viol := func(key, what string) { c.Viol(key, what, wit) }
	if h.envTrouble() > 0 {
		c.Inconclusive(fmt.Sprintf("network-level driver error during a burst (%v)", h.w.lastEnvErr.Load()))
		c.Obs("env_errors", 1)
		return
	}

	for key, g := range d.gauges {
		if g.Max() > 1 {
			// which readers ran them: all through one cache / cached conn, or through several
			where := ""
			for _, q1 := range qs {
				for _, q2 := range qs {
					if q1.Key == key && q2.Key == key && q1.Qid < q2.Qid && q1.Start < q2.End && q2.Start < q1.End &&
						readers[q1.Owner].Conn != readers[q2.Owner].Conn {
						where = "/across-conns"
					}
				}
			}
			viol("C06/conc/queries-overlap/"+keyClass(h, key)+where, fmt.Sprintf("%d database queries for %s ran at the same time", g.Max(), key))
		}
	}
	followers, lateHits, crossFollowers, scribbleFollowers, reuseFollowers := 0, 0, 0, 0, 0
	follower := func(rr *rRec, q *qRec) {
		followers++
		if readers[q.Owner].Conn != rr.Conn {
			crossFollowers++
		}
		// the caller whose query it shares overwrites its own result object as soon as its read returned
		if own := readers[q.Owner]; own.Scribble {
			scribbleFollowers++
			if own.ReuseBy > 0 {
				reuseFollowers++
			}
		}
	}
	if mode == "outage" {
		for _, rr := range readers {
			if rr.err == nil {
				viol("C06/outage/read-succeeded/concurrent", fmt.Sprintf("reader %d returned no error although the cache store fails", rr.ID))
			}
		}
		if len(qs) > 0 {
			viol("C06/outage/db-queried/concurrent", fmt.Sprintf("%d database queries ran although the cache store fails", len(qs)))
		}
		c.Obs("reads_during_outage", int64(len(readers)))
	} else {
		for _, rr := range readers {
			slot := slotOfKey(h, rr.Key)
			var qe *qErr
			switch {
			case rr.err == nil:
				var src *qRec
				for _, q := range qs {
					if q.Outcome == "row" && q.Row == rr.Got {
						src = q
					}
				}
				switch {
				case src == nil && scribbled(rr.Got):
					viol("C06/conc/result-changed-by-another-caller-after-its-read-returned", fmt.Sprintf("reader %d returned %v: no query produced that, (part of) it is what another caller wrote into ITS OWN result object after its read had returned", rr.ID, rr.Got))
				case src == nil:
					viol("C06/conc/result-of-no-query", fmt.Sprintf("reader %d returned %v, which no query produced", rr.ID, rr.Got))
				case slotOfKey(h, src.Key) != slot:
					viol("C06/conc/result-of-other-key", fmt.Sprintf("reader %d of %s returned the result of a query for %s", rr.ID, rr.Key, src.Key))
				case src.Start > rr.Ret:
					viol("C06/conc/result-of-later-query", fmt.Sprintf("reader %d returned the result of query %d which started after it returned", rr.ID, src.Qid))
				case src.Owner != rr.ID && rr.Inv < src.End:
					follower(rr, src)
				case src.Owner != rr.ID:
					lateHits++
				}
			case errors.As(rr.err, &qe):
				q := byQid[qe.qid]
				switch {
				case q == nil:
					viol("C06/conc/error-of-no-query", fmt.Sprintf("reader %d returned %v", rr.ID, rr.err))
				case slotOfKey(h, q.Key) != slot:
					viol("C06/conc/result-of-other-key", fmt.Sprintf("reader %d of %s returned the error of a query for %s", rr.ID, rr.Key, q.Key))
				case q.Owner != rr.ID && !(rr.Inv < readers[q.Owner].Ret && q.Start < rr.Ret):
					// a database error is never cached: only readers overlapping the failing read may see it
					viol("C06/conc/db-error-served-later", fmt.Sprintf("reader %d (invoked after reader %d had returned) got the error of query %d", rr.ID, q.Owner, q.Qid))
				case q.Owner != rr.ID:
					follower(rr, q)
				}
			case errors.Is(rr.err, d.nf):
				if rr.err != d.nf {
					// the unchanged tree hands the configured value itself to every reader, whatever the query's error looked like
					viol("C06/notfound/not-the-configured-value/"+shapeClass(d.shape), fmt.Sprintf("reader %d returned %q (%T), which is not the configured not-found error %q itself (the queries report an absent row in shape %s)", rr.ID, rr.err.Error(), rr.err, d.nf.Error(), shapeName(d.shape)))
				}
				ok := false
				for _, q := range qs {
					if q.Outcome == "notfound" && slotOfKey(h, q.Key) == slot && q.Start < rr.Ret {
						ok = true
						if q.Owner != rr.ID && rr.Inv < q.End {
							follower(rr, q)
						}
					}
				}
				if !ok {
					viol("C06/conc/not-found-without-query", fmt.Sprintf("reader %d returned not-found, no query said so", rr.ID))
				}
			case wf:
				// the refused SET of the primary entry is passed on by the index path, and failed writes may
				// open the client's breaker: a store error instead of a result is legitimate
				c.Obs("burst_store_errors_while_writes_fail", 1)
			default:
				viol("C06/conc/unexpected-error", fmt.Sprintf("reader %d returned %v", rr.ID, rr.err))
			}
		}
		// a cached row / not-found marker is served without touching the database
		// (while the store refuses writes nothing gets cached: every late reader queries)
		if !wf {
			for _, q2 := range qs {
				r2 := readers[q2.Owner]
				for _, q1 := range qs {
					if q1 != q2 && q1.Key == q2.Key && q1.Outcome != "error" && q1.End < r2.Inv {
						viol("C06/conc/queried-although-cached/"+q1.Outcome, fmt.Sprintf("reader %d was invoked after query %d (%s) for %s had completed, yet ran query %d", r2.ID, q1.Qid, q1.Outcome, q1.Key, q2.Qid))
					}
				}
			}
		}
	}
	// entries left behind: TTL envelope; nothing at all after pure database errors
	written := map[string]wr{}
	mustAbsent := map[string]string{}
	for key := range d.gauges {
		if keyClass(h, key) == "index-key" {
			written[key] = wr{class: "index"}
		} else {
			written[key] = wr{class: "primary", gap: 5e9}
		}
		if mode == "error" || mode == "outage" {
			mustAbsent[key] = "C06/dberr/cached/concurrent"
		}
		if mode == "notfound" && negShape(d.shape) {
			mustAbsent[key] = "C06/dberr/cached/notfound-" + shapeClass(d.shape)
		}
	}
	h.log = append(h.log, fmt.Sprintf("burst(%s,%d readers)", mode, len(readers)))
	h.prev = map[string]entry{}
	h.checkScan(written, mustAbsent, false)
	h.flush(false)

	// signature: merged (role, event) sequence
	type ev struct {
		s  uint64
		op string
	}
	var evs []ev
	for _, rr := range readers {
		role := "f"
		if len(rr.queries) > 0 {
			role = "o"
		}
		evs = append(evs, ev{rr.Inv, role + "inv"}, ev{rr.Ret, role + "ret"})
		for _, q := range rr.queries {
			evs = append(evs, ev{q.Start, "qs" + keyClass(h, q.Key)[:1] + q.Outcome[:1]}, ev{q.End, "qe"})
		}
	}
	sort.Slice(evs, func(i, j int) bool { return evs[i].s < evs[j].s })
	parts := []any{h.cfg.Flavour, mode, len(h.sts)}
	if mode == "notfound" {
		parts = append(parts, d.shape)
	}
	for _, e := range evs {
		parts = append(parts, e.op)
	}
	c.Sig(followers > 0, parts...)
	c.Obs("bursts", 1)
	c.Obs("burst_readers", int64(len(readers)))
	c.Obs("burst_queries", int64(len(qs)))
	c.Obs("burst_followers_sharing_a_query", int64(followers))
	c.Obs("burst_late_readers_served_from_cache", int64(lateHits))
	c.Obs("burst_followers_of_a_caller_that_scribbles_over_its_result", int64(scribbleFollowers))
	c.Obs("burst_followers_of_a_caller_that_reuses_its_result_object", int64(reuseFollowers))
	nfQ := 0
	for _, q := range qs {
		if q.Outcome == "notfound" || q.Outcome == "error" && mode == "notfound" {
			nfQ++
		}
	}
	if mode == "notfound" {
		c.Obs("bursts_notfound_shape_"+shapeName(d.shape), 1)
		c.Obs("burst_queries_reporting_absent_row", int64(nfQ))
	}
	for _, rr := range readers {
		if rr.ReuseOf >= 0 {
			c.Obs("burst_reads_into_a_reused_object", 1)
		}
	}
	if wf {
		c.Obs("bursts_store_refuses_writes", 1)
		c.Obs("burst_followers_sharing_a_query_store_refuses_writes", int64(followers))
	}
	if len(h.sts) > 1 {
		c.Obs("bursts_across_conns", 1)
		c.Obs("burst_followers_sharing_a_query_across_conns", int64(crossFollowers))
	}
	for _, rr := range readers {
		if cancelledAfterReturn(rr.Ctx) {
			c.Obs("burst_readers_ctx_cancelled_after_return", 1)
		}
	}
	c.Sample("burst-"+mode, 1, map[string]any{"config": h.cfg, "mode": mode, "readers": len(readers), "queries": len(qs), "followers": followers, "late_hits": lateHits, "conns": h.made, "followers_across_conns": crossFollowers})
}
