package c06

import (
	"database/sql"
	"errors"
	"fmt"

	red "github.com/redis/go-redis/v9"

	"verifharness/kit"
)

// The shapes in which a query closure reports an absent row.
//
// go-zero classifies the query's error with errors.Is against the configured
// not-found error (sql.ErrNoRows for the sqlc constructors, whatever the
// application passed to cache.New / cache.NewNode otherwise). A repository
// layer / ORM adapter that wraps the sentinel, joins it with a second error or
// answers for it through an Is method is therefore a legal way of saying "no
// such row": the read has to return the configured not-found error, and the
// marker has to be cached. The last two shapes are negative controls: an error
// that merely LOOKS like a not-found error (another package's sentinel, the
// same text under another identity) is a database error for this store - it is
// returned as it is and nothing is cached.
const (
	nfBare      = ""          // the configured not-found error itself
	nfWrap1     = "wrap1"     // fmt.Errorf("...: %w", nf)
	nfWrap2     = "wrap2"     // two levels of %w
	nfJoin      = "join"      // errors.Join(other, nf)
	nfIs        = "is-method" // a custom type whose Is() answers for nf
	nfForeign   = "foreign"   // another package's not-found error
	nfLookalike = "lookalike" // errors.New(nf.Error()): same text, other identity
)

var nfShapes = []string{nfBare, nfWrap1, nfWrap2, nfJoin, nfIs, nfForeign, nfLookalike}

// shapeName is the shape as it appears in counters and violation keys.
func shapeName(s string) string {
	if s == nfBare {
		return "bare"
	}
	return s
}

// shapeClass is the shape as it appears in violation keys: bare | indirect (the
// sentinel is reached through Unwrap / Is) | foreign | lookalike.
func shapeClass(s string) string {
	switch s {
	case nfBare:
		return "bare"
	case nfForeign, nfLookalike:
		return s
	}
	return "indirect"
}

// negShape: the shape does NOT denote the configured not-found error.
func negShape(s string) bool { return s == nfForeign || s == nfLookalike }

func genShape(r *kit.Rand) string {
	return nfShapes[r.Pick(36, 14, 10, 10, 10, 10, 10)]
}

// isNF answers errors.Is for its target without wrapping it.
type isNF struct {
	target error
	what   string
}

func (e *isNF) Error() string        { return "verif: repository: " + e.what + " does not exist" }
func (e *isNF) Is(target error) bool { return target == e.target }

var errOther = errors.New("verif: audit log unavailable")

// foreignOf: a not-found sentinel of another package than the configured one.
func foreignOf(nf error) error {
	if nf == sql.ErrNoRows {
		return red.Nil
	}
	return sql.ErrNoRows
}

// shapeNF builds the error a query closure returns for an absent row.
func shapeNF(shape string, nf error, what string) error {
	switch shape {
	case nfWrap1:
		return fmt.Errorf("find %s: %w", what, nf)
	case nfWrap2:
		return fmt.Errorf("repository: %w", fmt.Errorf("find %s: %w", what, nf))
	case nfJoin:
		return errors.Join(errOther, nf)
	case nfIs:
		return &isNF{target: nf, what: what}
	case nfForeign:
		return foreignOf(nf)
	case nfLookalike:
		return errors.New(nf.Error())
	}
	return nf
}

// ---------------------------------------------------------------- oracle helpers

// foreignReturned: a query of this op reported an absent row through an error
// that is not the configured not-found error, and the call returned that error.
func (h *hist) foreignReturned(o op, err error) bool {
	return negShape(o.NF) && h.db.lastNF != nil && err != nil && errors.Is(err, h.db.lastNF) && !errors.Is(err, h.st.notFound())
}

// freshResult: is (got, err) what a query that ran during this op has to yield,
// given what the database holds for the key (want)? For an absent row that
// depends on the shape the query closure reports it in.
func (h *hist) freshResult(o op, got row, err error, want *row) bool {
	if want != nil || !negShape(o.NF) {
		return h.sameResult(got, err, want)
	}
	return h.foreignReturned(o, err)
}

// checkConfigured: the read of an absent row reported not-found; what came back
// has to be the configured error. The unchanged tree hands out the configured
// value itself for every shape (doTake returns c.errNotFound, never the
// query's error).
func (h *hist) checkConfigured(o op, what string, err error, res map[string]any) {
	if err != nil && errors.Is(err, h.st.notFound()) && err != h.st.notFound() {
		h.viol("C06/notfound/not-the-configured-value/"+shapeClass(o.NF),
			fmt.Sprintf("%s (%s): the query reported the absent row as %q (shape %s); the read returned %q (%T), which is not the configured not-found error %q itself",
				o.String(), what, fmt.Sprint(h.db.lastNF), shapeName(o.NF), err.Error(), err, h.st.notFound().Error()), res)
	}
}

// absentRead records an uncached read of an absent row by shape.
func (h *hist) absentRead(o op) {
	h.c.Obs("absent_row_reads_shape_"+shapeName(o.NF), 1)
	h.nfReads++
}

// ---------------------------------------------------------------- family

// genNFGrid: every shape in turn against one store: the row is made absent, read
// (Take / TakeWithExpire / QueryRow) with the shape, read again at once (a
// marker has to answer without a query; after a negative control the database
// is asked again), the same through the index path, the marker's expiry or an
// insert ends the absence.
func genNFGrid(r *kit.Rand, cfg config) []op {
	var ops []op
	isq := isSQL(cfg)
	nlo, nhi := envelope(cfg.nfExpiry())
	_ = nlo
	for _, ix := range r.Perm(len(nfShapes)) {
		s := nfShapes[ix]
		slot := r.Intn(nSlots)
		name := kit.Choose(r, names)
		ops = append(ops,
			op{K: "write", Mut: "delete", Slot: slot, Name: name, Ctx: genCtx(r, cfg, false)},
			op{K: "read", Slot: slot, NF: s, Exp: !isq && r.Chance(0.4), Ctx: genCtx(r, cfg, false)},
			op{K: "read", Slot: slot, NF: genShape(r), Exp: !isq && r.Chance(0.4), Ctx: genCtx(r, cfg, false)})
		if isq {
			ops = append(ops,
				op{K: "index", Name: name, NF: s, Ctx: genCtx(r, cfg, false)},
				op{K: "index", Name: name, NF: genShape(r), Ctx: genCtx(r, cfg, false)})
		}
		switch r.Pick(3, 3, 2) {
		case 0: // the marker expires
			ops = append(ops, op{K: "ff", D: nhi}, op{K: "read", Slot: slot, NF: genShape(r), Ctx: genCtx(r, cfg, false)},
				op{K: "read", Slot: slot, NF: s, Ctx: genCtx(r, cfg, false)})
		case 1: // the row appears: the write invalidates the marker
			ops = append(ops, op{K: "write", Mut: "upsert", Slot: slot, Name: name, Ctx: genCtx(r, cfg, false)},
				op{K: "read", Slot: slot, NF: s, Ctx: genCtx(r, cfg, false)})
			if isq {
				ops = append(ops, op{K: "index", Name: name, NF: s, Ctx: genCtx(r, cfg, false)})
			}
		default: // a cache-only read sees the marker as not-found as well
			ops = append(ops, op{K: "get", Slot: slot, Ctx: genCtx(r, cfg, false)})
		}
	}
	return ops
}
