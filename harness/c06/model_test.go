package c06

import (
	"context"
	"database/sql"
	"encoding/json"
	"errors"
	"fmt"
	"strings"
	"time"

	"github.com/zeromicro/go-zero/core/stores/cache"
	"github.com/zeromicro/go-zero/core/stores/sqlc"
	"github.com/zeromicro/go-zero/core/stores/sqlx"
	"github.com/zeromicro/go-zero/core/syncx"
)

const (
	nSlots = 3
	defE   = 7 * 24 * time.Hour // go-zero's default expiry
	defNE  = time.Minute        // go-zero's default not-found expiry
)

var (
	names   = []string{"ann", "bob", "cy"}
	errDB   = errors.New("verif: injected database error")
	errNF   = errors.New("verif: configured not-found error")
	cstat   = cache.NewStat("verif-c06")
	barrier = syncx.NewSingleFlight()
)

// row is the cached value type.
type row struct {
	ID   int64  `json:"id"`
	SID  string `json:"sid"`
	Name string `json:"name"`
	Val  int64  `json:"val"`
	Pad  string `json:"pad"`
}

func (r *row) String() string {
	if r == nil {
		return "<absent>"
	}
	return fmt.Sprintf("{%d %s %s v%d}", r.ID, r.SID, r.Name, r.Val)
}

// ---------------------------------------------------------------- fake database

// fakeDB is the "database": a few row slots, read by the query closures.
type fakeDB struct {
	strPK     bool
	rows      [nSlots]*row
	fail      bool
	version   int64
	q         map[string]int  // queries per cache key during the current op
	nf        error           // the configured not-found error of the store
	panicOnce bool            // the next query panics (a bug in the caller's query closure), once
	ctx       context.Context // context of the call in progress (nil: API without context); a dead one makes the database refuse
	shape     string          // the shape in which the queries of the call in progress report an absent row (nfshape_test.go)
	lastNF    error           // the error the last query of the current op reported an absent row with (nil: none did)
}

// absent is what a query closure returns for a row that does not exist.
func (d *fakeDB) absent(what string) error {
	d.lastNF = shapeNF(d.shape, d.nf, what)
	return d.lastNF
}

// errLoaderPanic is the value the query closure panics with when asked to.
var errLoaderPanic = errors.New("verif: injected panic in the query closure")

func (d *fakeDB) maybePanic() {
	if d.panicOnce {
		d.panicOnce = false
		panic(errLoaderPanic)
	}
}

// refused: a database does not work under a context that is already done.
func (d *fakeDB) refused() error {
	if d.ctx != nil {
		return d.ctx.Err()
	}
	return nil
}

func (d *fakeDB) pk(slot int) any {
	if d.strPK {
		return fmt.Sprintf("u%d", slot)
	}
	return int64(1000000 + slot) // large enough to show a float64 detour in the key
}

func (d *fakeDB) slotOf(primary any) int {
	s := fmt.Sprint(primary)
	for i := 0; i < nSlots; i++ {
		if fmt.Sprint(d.pk(i)) == s {
			return i
		}
	}
	return -1
}

func (d *fakeDB) byName(name string) *row {
	for _, r := range d.rows {
		if r != nil && r.Name == name {
			return r
		}
	}
	return nil
}

func (d *fakeDB) newRow(slot int, name string) *row {
	d.version++
	return &row{ID: int64(1000000 + slot), SID: fmt.Sprintf("u%d", slot), Name: name, Val: d.version,
		Pad: fmt.Sprintf("pad-%d-%d", slot, d.version)}
}

// queryPrimary is the body of every primary-key query closure.
func (d *fakeDB) queryPrimary(key string, slot int, val any) error {
	d.q[key]++
	d.maybePanic()
	if err := d.refused(); err != nil {
		return err
	}
	if d.fail {
		return errDB
	}
	if slot < 0 || d.rows[slot] == nil {
		return d.absent(key)
	}
	*val.(*row) = *d.rows[slot]
	return nil
}

// queryIndex is the body of the index query closure.
func (d *fakeDB) queryIndex(key, name string, val any) (any, error) {
	d.q[key]++
	d.maybePanic()
	if err := d.refused(); err != nil {
		return nil, err
	}
	if d.fail {
		return nil, errDB
	}
	r := d.byName(name)
	if r == nil {
		return nil, d.absent(key)
	}
	*val.(*row) = *r
	return pkOf(d, r), nil
}

func pkOf(d *fakeDB, r *row) any {
	if d.strPK {
		return r.SID
	}
	return r.ID
}

// mutate applies a write; returns the names whose index keys are affected.
func (d *fakeDB) mutate(mut string, slot int, name string) (affected []string) {
	cur := d.rows[slot]
	switch mut {
	case "delete":
		if cur != nil {
			affected = append(affected, cur.Name)
			d.rows[slot] = nil
		}
	case "bump":
		if cur != nil {
			affected = append(affected, cur.Name)
			d.rows[slot] = d.newRow(slot, cur.Name)
		} else {
			nm := d.freeName(name, slot)
			d.rows[slot] = d.newRow(slot, nm)
			affected = append(affected, nm)
		}
	case "upsert":
		nm := d.freeName(name, slot)
		if cur != nil {
			affected = append(affected, cur.Name)
		}
		d.rows[slot] = d.newRow(slot, nm)
		if cur == nil || cur.Name != nm {
			affected = append(affected, nm)
		}
	}
	return
}

// freeName returns name unless another slot holds it, in which case the slot
// keeps its current name or gets a private one.
func (d *fakeDB) freeName(name string, slot int) string {
	if r := d.byName(name); r == nil || r == d.rows[slot] {
		return name
	}
	if d.rows[slot] != nil {
		return d.rows[slot].Name
	}
	return fmt.Sprintf("own%d", slot)
}

// ---------------------------------------------------------------- stores under test

// store hides the two API flavours (cache.Cache directly / sqlc.CachedConn).
type store interface {
	use(ctx context.Context)                   // context of the following calls (context flavour of the API only)
	read(key string, slot int) (row, error)    // Take / QueryRow
	readExp(key string, slot int) (row, error) // TakeWithExpire (cache flavour; sqlc: same as read)
	readIndex(ikey, name string, keyer func(any) string) (row, error)
	hasIndex() bool
	get(key string, v any) error
	set(key string, v any) error
	setExp(key string, v any, d time.Duration) error
	write(mut func(), fail bool, keys ...string) error // Exec: database write, then invalidation
	del(keys ...string) error
	notFound() error
}

// hctx marks the commands issued by harness calls (Ctx flavour of the API), so
// that driver errors of the cleaner's background retries are not mistaken for
// trouble on the harness's own calls.
type markKey struct{}

var hctx = context.WithValue(context.Background(), markKey{}, true)

type cacheStore struct {
	c   cache.Cache
	db  *fakeDB
	ctx context.Context // nil: the API without context is used
	// expires handed to TakeWithExpire's query closure
	lastExpire time.Duration
}

func (s *cacheStore) use(ctx context.Context) { s.ctx, s.db.ctx = ctx, ctx }
func (s *cacheStore) notFound() error         { return errNF }
func (s *cacheStore) hasIndex() bool          { return false }
func (s *cacheStore) read(key string, slot int) (row, error) {
	var v row
	q := func(val any) error { return s.db.queryPrimary(key, slot, val) }
	if s.ctx != nil {
		return v, s.c.TakeCtx(s.ctx, &v, key, q)
	}
	return v, s.c.Take(&v, key, q)
}
func (s *cacheStore) readExp(key string, slot int) (row, error) {
	var v row
	q := func(val any, expire time.Duration) error {
		s.lastExpire = expire
		return s.db.queryPrimary(key, slot, val)
	}
	if s.ctx != nil {
		return v, s.c.TakeWithExpireCtx(s.ctx, &v, key, q)
	}
	return v, s.c.TakeWithExpire(&v, key, q)
}
func (s *cacheStore) readIndex(string, string, func(any) string) (row, error) {
	return row{}, errors.New("no index read in the cache flavour")
}
func (s *cacheStore) get(key string, v any) error {
	if s.ctx != nil {
		return s.c.GetCtx(s.ctx, key, v)
	}
	return s.c.Get(key, v)
}
func (s *cacheStore) set(key string, v any) error {
	if s.ctx != nil {
		return s.c.SetCtx(s.ctx, key, v)
	}
	return s.c.Set(key, v)
}
func (s *cacheStore) setExp(key string, v any, d time.Duration) error {
	if s.ctx != nil {
		return s.c.SetWithExpireCtx(s.ctx, key, v, d)
	}
	return s.c.SetWithExpire(key, v, d)
}
func (s *cacheStore) write(mut func(), fail bool, keys ...string) error {
	if err := s.db.refused(); err != nil {
		return err // the caller's database write was refused (dead context): nothing to invalidate
	}
	if fail {
		return errDB // the caller's database write failed: nothing to invalidate
	}
	mut()
	return s.del(keys...)
}
func (s *cacheStore) del(keys ...string) error {
	if s.ctx != nil {
		return s.c.DelCtx(s.ctx, keys...)
	}
	return s.c.Del(keys...)
}

type sqlStore struct {
	cc  sqlc.CachedConn
	db  *fakeDB
	ctx context.Context
}

func (s *sqlStore) use(ctx context.Context) { s.ctx, s.db.ctx = ctx, ctx }
func (s *sqlStore) notFound() error         { return sqlc.ErrNotFound }
func (s *sqlStore) hasIndex() bool          { return true }
func (s *sqlStore) read(key string, slot int) (row, error) {
	var v row
	if s.ctx != nil {
		return v, s.cc.QueryRowCtx(s.ctx, &v, key, func(_ context.Context, _ sqlx.SqlConn, val any) error {
			return s.db.queryPrimary(key, slot, val)
		})
	}
	err := s.cc.QueryRow(&v, key, func(_ sqlx.SqlConn, val any) error { return s.db.queryPrimary(key, slot, val) })
	return v, err
}
func (s *sqlStore) readExp(key string, slot int) (row, error) { return s.read(key, slot) }
func (s *sqlStore) readIndex(ikey, name string, keyer func(any) string) (row, error) {
	var v row
	if s.ctx != nil {
		return v, s.cc.QueryRowIndexCtx(s.ctx, &v, ikey, keyer,
			func(_ context.Context, _ sqlx.SqlConn, val any) (any, error) { return s.db.queryIndex(ikey, name, val) },
			func(_ context.Context, _ sqlx.SqlConn, val, primary any) error {
				return s.db.queryPrimary(keyer(primary), s.db.slotOf(primary), val)
			})
	}
	err := s.cc.QueryRowIndex(&v, ikey, keyer,
		func(_ sqlx.SqlConn, val any) (any, error) { return s.db.queryIndex(ikey, name, val) },
		func(_ sqlx.SqlConn, val, primary any) error {
			return s.db.queryPrimary(keyer(primary), s.db.slotOf(primary), val)
		})
	return v, err
}
func (s *sqlStore) get(key string, v any) error {
	if s.ctx != nil {
		return s.cc.GetCacheCtx(s.ctx, key, v)
	}
	return s.cc.GetCache(key, v)
}
func (s *sqlStore) set(key string, v any) error {
	if s.ctx != nil {
		return s.cc.SetCacheCtx(s.ctx, key, v)
	}
	return s.cc.SetCache(key, v)
}
func (s *sqlStore) setExp(key string, v any, d time.Duration) error {
	if s.ctx != nil {
		return s.cc.SetCacheWithExpireCtx(s.ctx, key, v, d)
	}
	return s.cc.SetCacheWithExpire(key, v, d)
}
func (s *sqlStore) write(mut func(), fail bool, keys ...string) error {
	body := func() (sql.Result, error) {
		if err := s.db.refused(); err != nil {
			return nil, err
		}
		if fail {
			return nil, errDB
		}
		mut()
		return nil, nil
	}
	var err error
	if s.ctx != nil {
		_, err = s.cc.ExecCtx(s.ctx, func(context.Context, sqlx.SqlConn) (sql.Result, error) { return body() }, keys...)
	} else {
		_, err = s.cc.Exec(func(sqlx.SqlConn) (sql.Result, error) { return body() }, keys...)
	}
	return err
}
func (s *sqlStore) del(keys ...string) error {
	if s.ctx != nil {
		return s.cc.DelCacheCtx(s.ctx, keys...)
	}
	return s.cc.DelCache(keys...)
}

// ---------------------------------------------------------------- envelopes

func floorDiv(a, b int64) int64 { return a / b }
func ceilDiv(a, b int64) int64  { return (a + b - 1) / b }

// envelope of the TTL (whole seconds as durations) of an entry written with
// requested/configured expiry e: [floor(0.95e), ceil(1.05e)].
func envelope(e time.Duration) (lo, hi time.Duration) {
	n := int64(e)
	lo = time.Duration(floorDiv(n*95, 100*int64(time.Second))) * time.Second
	hi = time.Duration(ceilDiv(n*105, 100*int64(time.Second))) * time.Second
	return
}

func mustJSON(v any) string {
	b, err := json.Marshal(v)
	if err != nil {
		panic(err)
	}
	return string(b)
}

func decodeRow(s string) (row, bool) {
	var r row
	dec := json.NewDecoder(strings.NewReader(s))
	if err := dec.Decode(&r); err != nil {
		return r, false
	}
	return r, true
}
