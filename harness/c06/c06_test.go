package c06

import (
	"testing"
	"time"

	"github.com/zeromicro/go-zero/core/logx"

	"verifharness/kit"
)

// faultVariants enumerates (kind, node) pairs for the fault-placement family.
func faultVariants(cfg config, unreach bool) [][2]op {
	lift := op{K: "outage", Node: -1, Kind: upKind}
	v := [][2]op{
		{{K: "dberr", On: true}, {K: "dberr", On: false}},
		{{K: "outage", Node: -1, Kind: outErrors}, lift},
		{{K: "outage", Node: -1, Kind: outWrites}, lift},
	}
	if isCluster(cfg) {
		v = append(v, [2]op{{K: "outage", Node: 0, Kind: outErrors}, lift}, [2]op{{K: "outage", Node: 1, Kind: outErrors}, lift})
	}
	if unreach {
		v = append(v, [2]op{{K: "outage", Node: -1, Kind: outUnreach}, lift})
	}
	return v
}

func TestVerifC06(t *testing.T) {
	logx.Disable()
	w := newWorld(t)
	t0 := time.Now()
	lap := func(what string) { t.Logf("%s: %v", what, time.Since(t0).Round(time.Millisecond)); t0 = time.Now() }

	// seeded random histories with database errors and cache outages placed at random
	kit.Run(t, "C06", "random", kit.N(4000, 60000), func(c *kit.Case) {
		cfg := genConfig(c.R)
		ops := genOps(c.R, cfg, c.R.Range(8, 30), c.R.Chance(0.6), c.R.Chance(0.15))
		h := runHistory(w, c, cfg, ops, false)
		sample(c, "random", 2, h)
		if h.staleReads > 0 {
			sample(c, "random-with-stale-read", 1, h)
		}
	})

	lap("random")
	// failed invalidation, reads while tainted, the cleaner's retry, coherence afterwards
	kit.Run(t, "C06", "taint", kit.N(64, 640), func(c *kit.Case) {
		cfg := genConfig(c.R)
		cfg.NoCtx = false
		h := runHistory(w, c, cfg, genTaint(c.R, cfg), true)
		sample(c, "taint", 2, h)
	})

	lap("taint")
	// bounded fault placement: a fault-free base history is replayed with every
	// fault kind switched on before position p and off k ops later
	kit.Run(t, "C06", "faults", kit.N(48, 480), func(c *kit.Case) {
		cfg := genConfig(c.R)
		base := genOps(c.R, cfg, c.R.Range(6, 12), false, false)
		unreach := kit.Thorough() || c.Index%3 == 0
		for _, fv := range faultVariants(cfg, unreach) {
			for p := 0; p <= len(base); p++ {
				for k := 1; k <= 3 && p+k <= len(base)+1; k++ {
					end := p + k
					if end > len(base) {
						end = len(base)
					}
					var ops []op
					ops = append(ops, base[:p]...)
					ops = append(ops, fv[0])
					ops = append(ops, base[p:end]...)
					ops = append(ops, fv[1])
					ops = append(ops, base[end:]...)
					h := runHistory(w, c, cfg, ops, false)
					if p == 1 && k == 2 {
						sample(c, "faults", 1, h)
					}
					c.Obs("fault_placements", 1)
				}
			}
		}
	})

	lap("faults")
	// calls that go straight to the database (NoCache, Transact) and WithSession share the cache
	kit.Run(t, "C06", "passthrough", kit.N(96, 960), func(c *kit.Case) { passthrough(w, c) })
	lap("passthrough")
	// every shape in which a query closure can say "no such row" (and two that only look like it), in turn
	kit.Run(t, "C06", "nfshape", kit.N(200, 2400), func(c *kit.Case) {
		cfg := genConfig(c.R)
		h := runHistory(w, c, cfg, genNFGrid(c.R, cfg), false)
		c.Obs("nfshape_histories", 1)
		sample(c, "nfshape", 2, h)
	})
	lap("nfshape")
	runConcurrent(t, w)
	lap("burst")
	kit.End()
}
