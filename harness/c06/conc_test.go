package c06

import (
	"context"
	"errors"
	"fmt"
	"strings"
	"sync"
	"sync/atomic"
	"testing"
	"time"

	"github.com/zeromicro/go-zero/core/stores/sqlx"

	"verifharness/kit"
)

type sqlxConn = sqlx.SqlConn

const burstWatchdog = 90 * time.Second

// qErr is the error of one failing query execution (distinct per execution).
type qErr struct {
	qid   int64
	inner error // negative control: the not-found look-alike the query reported an absent row with
}

func (e *qErr) Error() string {
	if e.inner != nil {
		return fmt.Sprintf("verif: query %d: %v", e.qid, e.inner)
	}
	return fmt.Sprintf("verif: database error of query %d", e.qid)
}
func (e *qErr) Unwrap() error { return e.inner }

// qRec is one execution of a query closure.
type qRec struct {
	Qid        int64  `json:"qid"`
	Key        string `json:"key"`
	Owner      int    `json:"reader"`
	Start, End uint64
	Outcome    string `json:"outcome"` // row | notfound | error
	Row        row    `json:"row"`
}

// rRec is one reader call.
type rRec struct {
	ID   int    `json:"reader"`
	Kind string `json:"kind"` // read | readexp | index
	Key  string `json:"key"`
	Late bool   `json:"late"`
	Conn int    `json:"conn"` // which of the burst's caches / cached conns the reader goes through
	Ctx  string `json:"ctx"`  // kind of the reader's context (cancelled after its call returned unless background/values)
	// what the caller does with the object it handed to the read once the read returned:
	// overwrite every field (Scribble) and read another key into it (Reuse: reader ReuseBy)
	Scribble bool `json:"scribbles_over_its_result_after_return,omitempty"`
	ReuseBy  int  `json:"then_reads_another_key_into_it_as_reader,omitempty"`
	ReuseOf  int  `json:"reuses_the_object_of_reader"` // -1: an object of its own
	st       store
	Inv, Ret uint64
	Got      row    `json:"got"`
	Err      string `json:"err"`
	err      error
	queries  []*qRec
}

type burstDB struct {
	mode   string // row | notfound | error | mixed | outage
	nf     error
	qseq   atomic.Int64
	gauges map[string]*kit.Gauge
	over   atomic.Int64 // number of Enter() results > 1
	gate   chan struct{}
	gated  atomic.Int64 // queries that wait for the gate (the first ones)
	failP  float64
	nfPK   func(int) any // primary key of a slot (index queries return it)
	shape  string        // the shape in which the queries report an absent row (nfshape_test.go)
}

// scribble is what a caller leaves in the object it read into, once it has taken its result out.
func scribble(id int) row {
	return row{ID: int64(-7000000 - id), SID: fmt.Sprintf("scribbled-by-reader-%d", id), Name: "scribbled", Val: int64(-7000000 - id),
		Pad: "scribbled over by the caller after its read had returned"}
}

// scribbled: does any field of r come from a caller's scribbling?
func scribbled(r row) bool {
	return r.ID <= -7000000 || r.Val <= -7000000 || strings.HasPrefix(r.SID, "scribbled") || r.Name == "scribbled" || strings.HasPrefix(r.Pad, "scribbled")
}

func (d *burstDB) query(rr *rRec, key string, slot int, val any, coin float64) (any, error) {
	q := &qRec{Qid: d.qseq.Add(1), Key: key, Owner: rr.ID}
	rr.queries = append(rr.queries, q)
	g := d.gauges[key]
	q.Start = kit.Stamp()
	if g != nil && g.Enter() > 1 {
		d.over.Add(1)
	}
	if d.gated.Add(-1) >= 0 {
		<-d.gate
	}
	var err error
	switch {
	case d.mode == "error" || d.mode == "mixed" && coin < d.failP:
		q.Outcome, err = "error", &qErr{qid: q.Qid}
	case (d.mode == "notfound" || slot < 0) && negShape(d.shape):
		// negative control: not the configured not-found error, hence a database error
		q.Outcome, err = "error", &qErr{qid: q.Qid, inner: shapeNF(d.shape, d.nf, key)}
	case d.mode == "notfound" || slot < 0:
		q.Outcome, err = "notfound", shapeNF(d.shape, d.nf, key)
	default:
		q.Outcome = "row"
		q.Row = row{ID: int64(1000000 + slot), SID: fmt.Sprintf("u%d", slot), Name: names[slot], Val: q.Qid, Pad: fmt.Sprintf("q%d", q.Qid)}
		*val.(*row) = q.Row
	}
	if g != nil {
		g.Exit()
	}
	q.End = kit.Stamp()
	if err != nil {
		return nil, err
	}
	if d.nfPK != nil {
		return d.nfPK(slot), nil
	}
	return nil, nil
}

func runConcurrent(t *testing.T, w *world) {
	kit.Run(t, "C06", "burst", kit.N(2000, 32000), func(c *kit.Case) { burst(w, c) })
}

func burst(w *world, c *kit.Case) {
	r := c.R
	cfg := config{Flavour: kit.Choose(r, flavours), StrPK: r.Chance(0.3)}
	cfg.setExpiries(kit.Choose(r, burstExps), kit.Choose(r, nfExps))
	h := newHist(w, c, cfg)
	if h.dead {
		return
	}
	// half of the bursts spread their readers over 2-4 caches / cached conns on the
	// same store, created the way applications create them (one per model struct):
	// load suppression is promised per key, not per conn object
	if r.Chance(0.5) {
		for i, n := 1, r.Range(2, 4); i < n; i++ {
			st, how := h.mkStore(r.Chance(0.3))
			h.sts, h.made = append(h.sts, st), append(h.made, how)
		}
	}
	mode := []string{"row", "notfound", "error", "mixed", "outage"}[r.Pick(8, 3, 3, 3, 1)]
	// the store refuses every writing command while reads are served (a replica that became
	// read-only, a full disk): nothing can be cached, yet every reader that shared the leader's
	// query has to receive that query's result
	if (mode == "row" || mode == "mixed") && r.Chance(0.3) {
		mode += "-writes-fail"
	}
	nReaders := r.Range(2, 8)
	nKeys := 1 + r.Pick(3, 1)
	d := &burstDB{mode: strings.TrimSuffix(mode, "-writes-fail"), nf: h.st.notFound(), gauges: map[string]*kit.Gauge{}, gate: make(chan struct{}), failP: 0.5}
	d.nfPK = h.db.pk
	d.shape = genShape(r)
	d.gated.Store(int64(r.Range(1, 2)))
	if mode == "outage" {
		for _, n := range h.nodes {
			w.setOutage(n, outErrors)
		}
	}
	if writesFail(mode) {
		for _, n := range h.nodes {
			w.setOutage(n, outWrites)
		}
	}
	readers := make([]*rRec, nReaders)
	coins := make([][]float64, nReaders)
	delays := make([]time.Duration, nReaders)
	early := 0
	for i := range readers {
		slot := r.Intn(nKeys)
		rr := &rRec{ID: i, Kind: "read", Key: h.P(slot), Late: r.Chance(0.25)}
		if h.st.hasIndex() && r.Chance(0.3) {
			rr.Kind, rr.Key = "index", h.I(names[slot])
		} else if !h.st.hasIndex() && r.Chance(0.3) {
			rr.Kind = "readexp"
		}
		if i == 0 {
			rr.Late = false
		}
		if !rr.Late {
			early++
		}
		rr.Conn = r.Intn(len(h.sts))
		rr.st = h.sts[rr.Conn]
		rr.Ctx = []string{ctxBG, ctxCancel, ctxDeadline, ctxValues}[r.Pick(3, 4, 2, 1)]
		rr.Scribble, rr.ReuseOf = r.Chance(0.75), -1
		readers[i] = rr
		coins[i] = []float64{r.Float64(), r.Float64(), r.Float64()}
		delays[i] = time.Duration(r.Intn(1500)) * time.Microsecond
		d.gauges[h.P(slot)] = &kit.Gauge{}
		d.gauges[h.I(names[slot])] = &kit.Gauge{}
	}
	hold := time.Duration(r.Intn(3000)) * time.Microsecond
	// some of the callers that scribble go on to read another key (one the burst does not read
	// otherwise) into the same object; these reads are readers of their own (appended)
	if nKeys < nSlots {
		for i := 0; i < nReaders; i++ {
			if rr := readers[i]; rr.Scribble && r.Chance(0.4) {
				ru := &rRec{ID: len(readers), Kind: "read", Key: h.P(nSlots - 1), Late: true, Conn: rr.Conn, st: rr.st, Ctx: rr.Ctx,
					Scribble: true, ReuseOf: rr.ID}
				rr.ReuseBy = ru.ID
				readers = append(readers, ru)
				d.gauges[ru.Key] = &kit.Gauge{}
			}
		}
	}

	var invoked atomic.Int64
	var wg sync.WaitGroup
	released := make(chan struct{})
	for i, rr := range readers[:nReaders] {
		wg.Add(1)
		go func(i int, rr *rRec) {
			defer wg.Done()
			if rr.Late {
				<-released
				time.Sleep(delays[i])
			} else if i%2 == 1 {
				time.Sleep(delays[i] / 4)
			}
			slot := h.db.slotOf(h.db.pk(0))
			for s := 0; s < nSlots; s++ {
				if rr.Key == h.P(s) || rr.Key == h.I(names[s]) {
					slot = s
				}
			}
			nq := 0
			coin := func() float64 { nq++; return coins[i][(nq-1)%3] }
			ctx, after := opCtx(rr.Ctx, h.prefix)
			tgt := new(row) // the object this caller reads into
			rr.Inv = kit.Stamp()
			invoked.Add(1)
			switch rr.Kind {
			case "index":
				rr.Got, rr.err = burstIndex(ctx, h, d, rr, slot, coin, tgt)
			case "readexp":
				rr.Got, rr.err = burstRead(ctx, h, d, rr, slot, coin, true, tgt)
			default:
				rr.Got, rr.err = burstRead(ctx, h, d, rr, slot, coin, false, tgt)
			}
			rr.Ret = kit.Stamp()
			// the result has been taken out (rr.Got is a copy): the object is the caller's again
			if rr.Scribble {
				*tgt = scribble(rr.ID)
			}
			if rr.ReuseBy > 0 {
				ru := readers[rr.ReuseBy]
				ru.Inv = kit.Stamp()
				ru.Got, ru.err = burstRead(ctx, h, d, ru, nSlots-1, coin, false, tgt)
				ru.Ret = kit.Stamp()
				*tgt = scribble(ru.ID)
			}
			after()
		}(i, rr)
	}
	// causal release: the gate opens only after every early reader has been invoked
	go func() {
		for invoked.Load() < int64(early) {
			time.Sleep(50 * time.Microsecond)
		}
		time.Sleep(hold)
		close(d.gate)
		close(released)
	}()
	done := make(chan struct{})
	go func() { wg.Wait(); close(done) }()
	select {
	case <-done:
	case <-time.After(burstWatchdog):
		c.Inconclusive("burst did not finish within the watchdog")
		h.dead = true
		<-done
		return
	}
	if mode == "outage" || writesFail(mode) {
		for _, n := range h.nodes {
			if !w.setOutage(n, upKind) {
				c.Inconclusive("store did not come back after the burst")
				h.dead = true
				return
			}
		}
	}
	checkBurst(h, d, c, mode, readers)
}

func writesFail(mode string) bool { return strings.HasSuffix(mode, "-writes-fail") }

// burstRead reads rr.Key into *v (the caller's object) and returns a copy of what the read left there.
func burstRead(ctx context.Context, h *hist, d *burstDB, rr *rRec, slot int, coin func() float64, exp bool, v *row) (row, error) {
	var err error
	switch st := rr.st.(type) {
	case *cacheStore:
		if exp {
			err = st.c.TakeWithExpireCtx(ctx, v, rr.Key, func(val any, _ time.Duration) error {
				_, e := d.query(rr, rr.Key, slot, val, coin())
				return e
			})
		} else {
			err = st.c.TakeCtx(ctx, v, rr.Key, func(val any) error {
				_, e := d.query(rr, rr.Key, slot, val, coin())
				return e
			})
		}
	case *sqlStore:
		err = st.cc.QueryRowCtx(ctx, v, rr.Key, func(_ context.Context, _ sqlxConn, val any) error {
			_, e := d.query(rr, rr.Key, slot, val, coin())
			return e
		})
	}
	return *v, err
}

func burstIndex(ctx context.Context, h *hist, d *burstDB, rr *rRec, slot int, coin func() float64, v *row) (row, error) {
	st := rr.st.(*sqlStore)
	err := st.cc.QueryRowIndexCtx(ctx, v, rr.Key, h.keyer,
		func(_ context.Context, _ sqlxConn, val any) (any, error) {
			return d.query(rr, rr.Key, slot, val, coin())
		},
		func(_ context.Context, _ sqlxConn, val, primary any) error {
			_, e := d.query(rr, h.keyer(primary), h.db.slotOf(primary), val, coin())
			return e
		})
	return *v, err
}

var _ = errors.Is
