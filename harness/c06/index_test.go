package c06

import (
	"errors"
	"fmt"
	"sync"
	"time"

	"github.com/zeromicro/go-zero/core/stores/cache"
)

// opIndex: QueryRowIndex - index key -> primary key -> row.
func (h *hist) opIndex(o op, written map[string]wr, mustAbsent map[string]string) {
	ik := h.I(o.Name)
	ist := h.state(ik)
	preI, cachedI := h.prev[ik]
	var got row
	var err error
	h.call(o, func() { got, err = h.st.readIndex(ik, o.Name, h.keyer) })

	var want *row
	freshPK := ""
	if r := h.db.byName(o.Name); r != nil {
		cp := *r
		want = &cp
		freshPK = h.keyer(pkOf(h.db, r))
	}
	// the primary key the cached index entry points to
	pk, pkSlot := "", -1
	var preP entry
	cachedP := false
	if cachedI && preI.Val != "*" {
		prim := decodeAny(preI.Val)
		pk, pkSlot = h.keyer(prim), h.db.slotOf(prim)
		preP, cachedP = h.prev[pk]
	}
	res := map[string]any{"index_key": ik, "primary_key_from_cache": pk, "primary_key_in_db": freshPK,
		"result": resStr(got, err), "queries": h.db.q}
	if k, n := h.qOther(ik, pk, freshPK); n > 0 {
		h.viol("C06/query/wrong-key", fmt.Sprintf("index read of %s ran %d queries for %s", ik, n, k), res)
	}
	qI := h.db.q[ik]
	switch {
	case h.panickedOp(o, "index", res):
	case h.preCancelled(o, err):
		for _, k := range []string{ik, pk, freshPK} {
			if _, had := h.prev[k]; k != "" && !had {
				mustAbsent[k] = "C06/ctx/cached-from-cancelled-call/index"
			}
		}
	case ist.node.getFails():
		kind := ist.node.outage()
		h.outageReads++
		h.c.Obs("reads_during_outage", 1)
		if err == nil {
			h.viol("C06/outage/read-succeeded/"+kind, "index read returned no error although the cache store fails", res)
		}
		for k, n := range h.db.q {
			if n > 0 {
				h.viol("C06/outage/db-queried/"+kind, fmt.Sprintf("index read ran %d database queries (%s) although the cache store fails", n, k), res)
			}
		}
		if err != nil && errors.Is(err, h.st.notFound()) && want != nil {
			h.viol("C06/outage/reported-as-not-found/"+kind, "cache outage answered with the not-found error although the row exists", res)
		}
	case h.storeTrouble(err, ik, pk, freshPK):
		h.c.Obs("store_errors_during_partial_outage", 1)
		written[ik] = wr{class: "index"}
		if pk != "" {
			written[pk] = wr{class: "primary", gap: 5 * time.Second}
		}
		if freshPK != "" {
			written[freshPK] = wr{class: "primary", gap: 5 * time.Second}
		}
	case h.tainted(ik, pk, freshPK):
		fresh := h.sameResult(got, err, want) || (h.db.fail && errors.Is(err, errDB)) || (err != nil && h.anyDown()) || h.foreignReturned(o, err)
		stale := false
		if cachedI {
			switch {
			case preI.Val == "*":
				stale = err != nil && errors.Is(err, h.st.notFound())
			case cachedP:
				// the cleaner's retry may have removed the primary entry since the scan: then the primary query ran
				stale = h.servedFrom(preP, got, err) || h.tainted(pk) && (h.sameResult(got, err, h.dbRow(pkSlot)) || h.foreignReturned(o, err))
			default:
				stale = h.sameResult(got, err, h.dbRow(pkSlot))
			}
		}
		knownStale := cachedI && h.isStale(ik, preI) || cachedP && h.isStale(pk, preP)
		polluted := ist.polluted || pk != "" && h.state(pk).polluted
		switch {
		case fresh:
			h.c.Obs("tainted_reads_fresh", 1)
		case stale && polluted:
		case stale && knownStale:
			h.staleReads++
			h.c.Obs("tainted_reads_stale", 1)
			h.viol(kStale, fmt.Sprintf("index read of %s returned %s through entries whose invalidation failed; database holds %v", ik, resStr(got, err), want), res)
		case stale:
			h.viol("C06/coherence/stale-entry/index", fmt.Sprintf("index read of %s returned %s, database holds %v (entries written after the failed invalidation)", ik, resStr(got, err), want), res)
		default:
			h.viol("C06/tainted/neither-stale-nor-fresh", fmt.Sprintf("index read of %s returned %s; database holds %v", ik, resStr(got, err), want), res)
		}
		written[ik] = wr{class: "index"}
		if pk != "" {
			written[pk] = wr{class: "primary", gap: 5 * time.Second}
		}
		if freshPK != "" {
			written[freshPK] = wr{class: "primary", gap: 5 * time.Second}
		}
	case cachedI:
		h.hits++
		h.c.Obs("cached_index_reads_"+vp(preI), 1)
		if qI > 0 {
			h.viol("C06/cached/db-queried/index-"+vp(preI), fmt.Sprintf("read of cached index entry %s ran %d index queries", ik, qI), res)
		}
		if preI.Val == "*" {
			if err == nil || !errors.Is(err, h.st.notFound()) {
				h.viol("C06/cached/not-served/index-placeholder", "index read returned "+resStr(got, err)+" although the index key holds the not-found marker", res)
			} else if !ist.polluted && want != nil {
				h.viol("C06/coherence/stale-placeholder/index", fmt.Sprintf("index read of %s returned not-found, database holds %v", ik, want), res)
			}
			return
		}
		pst := h.state(pk)
		qP := h.db.q[pk]
		switch {
		case pst.node.getFails():
			h.c.Obs("reads_during_outage", 1)
			if err == nil {
				h.viol("C06/outage/read-succeeded/"+pst.node.outage(), "index read returned no error although the node of the primary key fails", res)
			}
			if qP > 0 {
				h.viol("C06/outage/db-queried/"+pst.node.outage(), "primary query ran although the node of the primary key fails", res)
			}
		case cachedP:
			h.c.Obs("cached_reads_"+vp(preP), 1)
			if qP > 0 {
				h.viol("C06/cached/db-queried/primary-via-index-"+vp(preP), fmt.Sprintf("cached primary entry %s: %d queries", pk, qP), res)
			}
			if !h.servedFrom(preP, got, err) {
				h.viol("C06/cached/not-served/primary-via-index-"+vp(preP), fmt.Sprintf("index read returned %s, cached primary entry is %q", resStr(got, err), preP.Val), res)
			} else if !ist.polluted && !pst.polluted && !h.sameResult(got, err, want) {
				h.viol("C06/coherence/stale-"+vp(preP)+"/index", fmt.Sprintf("index read of %s returned %s, database holds %v", ik, resStr(got, err), want), res)
			}
		case h.db.fail:
			h.dbErrReads++
			h.c.Obs("reads_with_db_error", 1)
			if !errors.Is(err, errDB) {
				h.viol("C06/dberr/not-returned/index-primary", "primary query failed but the index read returned "+resStr(got, err), res)
			}
			mustAbsent[pk] = "C06/dberr/cached/index-primary"
		case h.dbRow(pkSlot) == nil && negShape(o.NF):
			// negative control on the primary query (see opRead)
			h.absentRead(o)
			res["query_reported"] = fmt.Sprint(h.db.lastNF)
			if !h.foreignReturned(o, err) {
				h.viol("C06/dberr/not-returned/notfound-"+shapeClass(o.NF), fmt.Sprintf("the primary query for %s failed with %q, which is not the configured not-found error; the index read returned %s", pk, fmt.Sprint(h.db.lastNF), resStr(got, err)), res)
			}
			mustAbsent[pk] = "C06/dberr/cached/notfound-" + shapeClass(o.NF)
		default:
			wantP := h.dbRow(pkSlot)
			ok := h.sameResult(got, err, wantP)
			if !ok {
				h.viol("C06/coherence/uncached-read-wrong/index-primary", fmt.Sprintf("index read returned %s, database holds %v for %s", resStr(got, err), h.dbRow(pkSlot), pk), res)
			} else if !ist.polluted && !h.sameResult(got, err, want) {
				h.viol("C06/coherence/stale-index-entry", fmt.Sprintf("index read of %s returned %s, database holds %v", ik, resStr(got, err), want), res)
			}
			w := wr{class: "take"}
			if wantP == nil {
				h.absentRead(o)
				res["query_reported"] = fmt.Sprint(h.db.lastNF)
				h.checkConfigured(o, "index-primary", err, res)
			}
			if ok && pst.node.outage() == upKind && o.Ctx != ctxPre {
				w.must, w.shape = "C06/uncached-read/not-cached/"+rowOrNF(wantP, o), o.NF
			}
			written[pk] = w
			pst.polluted = false
		}
	default: // index key not cached
		h.misses++
		switch {
		case h.db.fail:
			h.dbErrReads++
			h.c.Obs("reads_with_db_error", 1)
			if !errors.Is(err, errDB) {
				h.viol("C06/dberr/not-returned/index", "index query failed but the index read returned "+resStr(got, err), res)
			}
			mustAbsent[ik] = "C06/dberr/cached/index"
			if freshPK != "" {
				if _, had := h.prev[freshPK]; !had {
					mustAbsent[freshPK] = "C06/dberr/cached/index-primary"
				}
			}
		case want == nil && negShape(o.NF):
			// negative control on the index query (see opRead)
			h.c.Obs("uncached_reads", 1)
			h.absentRead(o)
			res["query_reported"] = fmt.Sprint(h.db.lastNF)
			if !h.foreignReturned(o, err) {
				h.viol("C06/dberr/not-returned/notfound-"+shapeClass(o.NF), fmt.Sprintf("the index query for %s failed with %q, which is not the configured not-found error; the index read returned %s", ik, fmt.Sprint(h.db.lastNF), resStr(got, err)), res)
			}
			mustAbsent[ik] = "C06/dberr/cached/notfound-" + shapeClass(o.NF)
		case want == nil:
			h.c.Obs("uncached_reads", 1)
			h.absentRead(o)
			res["query_reported"] = fmt.Sprint(h.db.lastNF)
			ok := h.sameResult(got, err, nil)
			if !ok {
				h.viol("C06/coherence/uncached-read-wrong/index", fmt.Sprintf("index read of %s returned %s, database holds no such row", ik, resStr(got, err)), res)
			}
			h.checkConfigured(o, "index", err, res)
			w := wr{class: "index"}
			if ok && ist.node.outage() == upKind && o.Ctx != ctxPre {
				w.must, w.shape = "C06/uncached-read/not-cached/"+rowOrNF(nil, o), o.NF
			}
			written[ik] = w
			ist.polluted = false
		default:
			h.c.Obs("uncached_reads", 1)
			fst := h.state(freshPK)
			if h.db.q[freshPK] > 0 && fst.node.setFails() {
				h.viol("C06/outage/db-queried/"+fst.node.outage(), "primary query ran although the node of the primary key fails", res)
			}
			if !h.sameResult(got, err, want) && !(err != nil && fst.node.setFails()) {
				h.viol("C06/coherence/uncached-read-wrong/index", fmt.Sprintf("index read of %s returned %s, database holds %v", ik, resStr(got, err), want), res)
			}
			wi, wp := wr{class: "index"}, wr{class: "primary-via-index", gap: 5 * time.Second}
			if err == nil && h.sameResult(got, err, want) && ist.node.outage() == upKind && fst.node.outage() == upKind && o.Ctx != ctxPre {
				wi.must, wp.must = "C06/uncached-read/not-cached/index-entry", "C06/uncached-read/not-cached/primary-via-index"
			}
			written[ik] = wi
			written[freshPK] = wp
			ist.polluted = false
			if err == nil {
				fst.polluted = false
			}
		}
	}
}

// waitCleaner waits until the cleaner's retry of every failed invalidation has
// been observed at the store. The wait is causal: a canary task is handed to the
// same process-global timing wheel (same 1 s delay, added later, therefore fired
// no earlier than the retries); once it ran, the retries have been dispatched.
// After that the state is sampled twice, 15 s apart: no DEL attempt at all for a
// key and nothing changed between the samples => the retry does not exist.
var noRetryReported bool

func (h *hist) waitCleaner() {
	pendingKeys := func() []string {
		h.absorbDels(nil)
		var out []string
		for k, st := range h.ks {
			if st.pending > 0 {
				out = append(out, k)
			}
		}
		return out
	}
	if len(pendingKeys()) == 0 {
		return
	}
	if h.anyDown() {
		panic("harness: waitcleaner with an outage in place")
	}
	healed := time.Since(h.taintAt)
	canary := make(chan struct{})
	var once sync.Once
	cache.AddCleanTask(func() error { once.Do(func() { close(canary) }); return nil }, h.prefix+"canary")
	select {
	case <-canary:
	case <-time.After(90 * time.Second):
		h.c.Inconclusive("the cleaner's timing wheel did not fire the canary task within 90 s")
		h.dead = true
		return
	}
	poll := func(d time.Duration) []string {
		end := time.Now().Add(d)
		for {
			p := pendingKeys()
			if len(p) == 0 || time.Now().After(end) {
				return p
			}
			time.Sleep(5 * time.Millisecond)
		}
	}
	resolved := func() {
		h.c.Obs("cleaner_waits_resolved", 1)
		if h.taintCtxDead {
			h.c.Obs("cleaner_waits_resolved_after_ctx_cancel", 1)
			h.taintCtxDead = false
		}
	}
	// once a missing retry has been reported by this process the run has failed
	// anyway: the remaining histories do not spend 30 s each on the same defect
	gap := 15 * time.Second
	if noRetryReported {
		gap = 4 * time.Second
	}
	p1 := poll(gap)
	if len(p1) == 0 {
		resolved()
		return
	}
	p2 := poll(gap)
	if len(p2) == 0 {
		resolved()
		return
	}
	if healed > 800*time.Millisecond {
		// the first retry may have hit the outage itself (next one after 5 s, then 1 min)
		h.c.Inconclusive(fmt.Sprintf("outage lasted %v of real time; the cleaner's first retries may have failed", healed))
		h.dead = true
		return
	}
	post, _ := h.w.scan(h.nodes)
	noRetryReported = true
	h.viol("C06/cleaner/no-retry-observed", fmt.Sprintf("no DEL for %v reached the store although the timing wheel fired a later task and %v passed", p2, 2*gap),
		map[string]any{"after_wait": post})
	for _, k := range p2 {
		h.ks[k].pending = 0 // cannot be resolved any more; keep checking the rest
	}
}
