package c06

import (
	"context"
	"errors"
	"fmt"
	"time"
)

// Kinds of per-operation contexts (the kinds real callers pass). Every kind is
// derived from hctx, so the commands of harness calls stay attributable.
const (
	ctxBG       = ""         // background context (never cancelled, no deadline)
	ctxCancel   = "cancel"   // cancellable, cancelled right AFTER the call returned (what every HTTP/RPC request context does)
	ctxDeadline = "deadline" // generous deadline (1 h), cancelled after the call returned
	ctxValues   = "values"   // carries values (trace id, user), never cancelled
	ctxPre      = "pre"      // cancelled BEFORE the call: the call may legitimately fail
)

type ctxKey struct{ name string }

// opCtx builds the context of one call; after() is what the caller does once the call returned.
func opCtx(kind, tag string) (ctx context.Context, after func()) {
	switch kind {
	case ctxCancel:
		return context.WithCancel(hctx)
	case ctxDeadline:
		return context.WithTimeout(hctx, time.Hour)
	case ctxValues:
		return context.WithValue(context.WithValue(hctx, ctxKey{"trace"}, tag), ctxKey{"user"}, int64(42)), func() {}
	case ctxPre:
		c, cancel := context.WithCancel(hctx)
		cancel()
		return c, func() {}
	}
	return hctx, func() {}
}

// cancelledAfterReturn: the context of the op is dead once the op returned.
func cancelledAfterReturn(kind string) bool { return kind == ctxCancel || kind == ctxDeadline }

type op struct {
	K     string        `json:"k"` // read index get set setexp write del ff dberr outage waitcleaner
	Slot  int           `json:"slot,omitempty"`
	Name  string        `json:"name,omitempty"`
	IsI   bool          `json:"index_key,omitempty"` // get/set/del address the index key of Name instead of the primary key of Slot
	Mut   string        `json:"mut,omitempty"`       // upsert bump delete
	D     time.Duration `json:"d,omitempty"`
	Good  bool          `json:"good,omitempty"`  // set: what the database holds (else an arbitrary value)
	Exp   bool          `json:"exp,omitempty"`   // read through TakeWithExpire
	Node  int           `json:"node,omitempty"`  // outage: -1 all nodes of the store
	Kind  string        `json:"kind,omitempty"`  // outage kind, "" lifts
	On    bool          `json:"on,omitempty"`    // dberr
	Ctx   string        `json:"ctx,omitempty"`   // kind of the context the call runs under (API with context only)
	Panic bool          `json:"panic,omitempty"` // read/index: the query closure panics if it gets called (recovered by the harness)
	NF    string        `json:"nf,omitempty"`    // read/index: the shape in which the query closures report an absent row (nfshape_test.go)
}

func (o op) String() string {
	if o.NF != nfBare {
		nf := o.NF
		o.NF = nfBare
		return o.String() + "~" + nf
	}
	if o.Panic {
		o.Panic = false
		return o.String() + "!panic"
	}
	if o.Ctx != ctxBG {
		c := o.Ctx
		o.Ctx = ctxBG
		return o.String() + "@" + c
	}
	key := fmt.Sprintf("P%d", o.Slot)
	if o.IsI {
		key = "I(" + o.Name + ")"
	}
	switch o.K {
	case "read":
		if o.Exp {
			return fmt.Sprintf("readexp(P%d)", o.Slot)
		}
		return fmt.Sprintf("read(P%d)", o.Slot)
	case "index":
		return "index(" + o.Name + ")"
	case "get", "del":
		return o.K + "(" + key + ")"
	case "set":
		return fmt.Sprintf("set(%s,good=%v)", key, o.Good)
	case "setexp":
		return fmt.Sprintf("setexp(%s,good=%v,%v)", key, o.Good, o.D)
	case "write":
		return fmt.Sprintf("write(%s,P%d,%s)", o.Mut, o.Slot, o.Name)
	case "ff":
		return fmt.Sprintf("ff(%v)", o.D)
	case "dberr":
		return fmt.Sprintf("dberr(%v)", o.On)
	case "outage":
		return fmt.Sprintf("outage(node=%d,%q)", o.Node, o.Kind)
	}
	return o.K
}

func (h *hist) keyOf(o op) string {
	if o.IsI {
		return h.I(o.Name)
	}
	return h.P(o.Slot)
}

// step runs one op against the real store and the oracle.
func (h *hist) step(o op) {
	if h.dead {
		return
	}
	h.log = append(h.log, o.String())
	h.absorbDels(nil)
	h.db.q = map[string]int{}
	h.db.lastNF = nil
	env0 := h.envTrouble()
	unreach := false
	for _, n := range h.nodes {
		if n.outage() == outUnreach {
			unreach = true
		}
	}
	written := map[string]wr{}
	mustAbsent := map[string]string{}
	ff := false
	switch o.K {
	case "read":
		h.opRead(o, written, mustAbsent)
	case "index":
		if h.st.hasIndex() {
			h.opIndex(o, written, mustAbsent)
		}
	case "get":
		h.opGet(o)
	case "set", "setexp":
		h.opSet(o, written)
	case "write", "del":
		h.opWrite(o, mustAbsent)
	case "ff":
		h.w.fastForward(o.D)
		ff = true
	case "dberr":
		h.db.fail = o.On
		h.fault++
	case "outage":
		h.fault++
		for i, n := range h.nodes {
			if o.Node < 0 || o.Node%len(h.nodes) == i {
				if o.Kind == outUnreach {
					unreach = true
				}
				if !h.w.setOutage(n, o.Kind) {
					h.c.Inconclusive("store did not come back after an injected outage")
					h.dead = true
					return
				}
			}
		}
	case "waitcleaner":
		h.waitCleaner()
	}
	if !unreach && h.envTrouble() != env0 {
		// the driver gave up on a command with a network-level error although no
		// outage was injected: environment trouble, the rest of the history is undecidable
		from := len(h.log) - 8
		if from < 0 {
			from = 0
		}
		h.c.Inconclusive(fmt.Sprintf("network-level driver error without an injected outage (%s, %v), last ops %v", h.cfg.Flavour, h.w.lastEnvErr.Load(), h.log[from:]))
		h.c.Obs("env_errors", 1)
		h.dead = true
		h.flush(true)
		return
	}
	h.checkScan(written, mustAbsent, ff)
	h.flush(false)
}

func (h *hist) qOther(keys ...string) (string, int) {
	for k, n := range h.db.q {
		mine := false
		for _, x := range keys {
			if x == k {
				mine = true
			}
		}
		if !mine && n > 0 {
			return k, n
		}
	}
	return "", 0
}

// opRead: Take / TakeWithExpire / QueryRow on a primary key.
func (h *hist) opRead(o op, written map[string]wr, mustAbsent map[string]string) {
	key := h.P(o.Slot)
	st := h.state(key)
	pre, cached := h.prev[key]
	var got row
	var err error
	h.call(o, func() {
		if o.Exp {
			got, err = h.st.readExp(key, o.Slot)
		} else {
			got, err = h.st.read(key, o.Slot)
		}
	})
	q := h.db.q[key]
	res := map[string]any{"key": key, "result": resStr(got, err), "queries": h.db.q}
	if k, n := h.qOther(key); n > 0 {
		h.viol("C06/query/wrong-key", fmt.Sprintf("read of %s ran %d queries for %s", key, n, k), res)
	}
	want := h.dbRow(o.Slot)
	switch {
	case h.panickedOp(o, "read", res):
	case h.preCancelled(o, err):
		// the context was dead before the call: failing is legitimate; nothing may be cached from it
		if !cached {
			mustAbsent[key] = "C06/ctx/cached-from-cancelled-call/read"
		}
	case st.node.getFails():
		kind := st.node.outage()
		h.outageReads++
		h.c.Obs("reads_during_outage", 1)
		if err == nil {
			h.viol("C06/outage/read-succeeded/"+kind, "read returned no error although the cache store fails", res)
		}
		if q > 0 {
			h.viol("C06/outage/db-queried/"+kind, fmt.Sprintf("read ran %d database queries although the cache store fails", q), res)
		}
		if err != nil && errors.Is(err, h.st.notFound()) && want != nil {
			h.viol("C06/outage/reported-as-not-found/"+kind, "cache outage answered with the not-found error although the row exists", res)
		}
	case h.storeTrouble(err, key):
		h.c.Obs("store_errors_during_partial_outage", 1)
		written[key] = wr{class: "take"}
	case h.tainted(key):
		// the cleaner's retry may remove the entry at any moment: no query-count demand
		fresh := h.sameResult(got, err, want) || (h.db.fail && errors.Is(err, errDB)) || h.foreignReturned(o, err)
		served := cached && h.servedFrom(pre, got, err)
		switch {
		case fresh:
			h.c.Obs("tainted_reads_fresh", 1)
		case served && st.polluted:
		case served && h.isStale(key, pre):
			h.staleReads++
			h.c.Obs("tainted_reads_stale", 1)
			h.viol(kStale, fmt.Sprintf("read of %s returned %s from the entry whose invalidation failed; database holds %v", key, resStr(got, err), want), res)
		case served:
			h.viol("C06/coherence/stale-"+vp(pre)+"/read", fmt.Sprintf("read of %s returned %s, database holds %v (entry written after the failed invalidation)", key, resStr(got, err), want), res)
		default:
			h.viol("C06/tainted/neither-stale-nor-fresh", fmt.Sprintf("read of %s returned %s; database holds %v, entry %q", key, resStr(got, err), want, pre.Val), res)
		}
		written[key] = wr{class: "take"}
	case cached:
		h.hits++
		h.c.Obs("cached_reads_"+vp(pre), 1)
		if pre.Val == "*" && st.nfShape != "" {
			h.c.Obs("cached_reads_placeholder_written_for_shape_"+st.nfShape, 1)
		}
		if q > 0 {
			h.viol("C06/cached/db-queried/"+vp(pre), fmt.Sprintf("read of cached %s ran %d database queries", key, q), res)
		}
		if !h.servedFrom(pre, got, err) {
			h.viol("C06/cached/not-served/"+vp(pre), fmt.Sprintf("read of %s returned %s, cached entry is %q", key, resStr(got, err), pre.Val), res)
		} else if !st.polluted && !h.sameResult(got, err, want) {
			h.viol("C06/coherence/stale-"+vp(pre)+"/read", fmt.Sprintf("read of %s returned %s, database holds %v", key, resStr(got, err), want), res)
		}
	default:
		h.misses++
		if h.db.fail {
			h.dbErrReads++
			h.c.Obs("reads_with_db_error", 1)
			if !errors.Is(err, errDB) {
				h.viol("C06/dberr/not-returned/read", "uncached read during a database failure returned "+resStr(got, err), res)
			}
			mustAbsent[key] = "C06/dberr/cached/read"
		} else if want == nil && negShape(o.NF) {
			// negative control: the query said "absent" through an error that is not the configured
			// not-found error. For this store that is a database error: returned, never cached
			h.c.Obs("uncached_reads", 1)
			h.absentRead(o)
			res["query_reported"] = fmt.Sprint(h.db.lastNF)
			if !h.foreignReturned(o, err) {
				h.viol("C06/dberr/not-returned/notfound-"+shapeClass(o.NF), fmt.Sprintf("the query for %s failed with %q, which is not the configured not-found error %q; the read returned %s", key, fmt.Sprint(h.db.lastNF), h.st.notFound().Error(), resStr(got, err)), res)
			}
			mustAbsent[key] = "C06/dberr/cached/notfound-" + shapeClass(o.NF)
		} else {
			h.c.Obs("uncached_reads", 1)
			ok := h.sameResult(got, err, want)
			if !ok {
				h.viol("C06/coherence/uncached-read-wrong/read", fmt.Sprintf("read of %s returned %s, database holds %v", key, resStr(got, err), want), res)
			}
			w := wr{class: "take"}
			if want == nil {
				h.absentRead(o)
				res["query_reported"] = fmt.Sprint(h.db.lastNF)
				h.checkConfigured(o, "read", err, res)
			}
			// what the query returned is in the cache from now on (healthy store): the next read must not reach the database
			if ok && st.node.outage() == upKind && o.Ctx != ctxPre {
				w.must = "C06/uncached-read/not-cached/" + rowOrNF(want, o)
				w.shape = o.NF
			}
			written[key] = w
			st.polluted = false
		}
	}
}

// rowOrNF: class of what an uncached read had to cache.
func rowOrNF(want *row, o op) string {
	if want != nil {
		return "row"
	}
	return "notfound-" + shapeClass(o.NF)
}

// opGet: cache-only read.
func (h *hist) opGet(o op) {
	key := h.keyOf(o)
	st := h.state(key)
	pre, cached := h.prev[key]
	var got row
	var gotAny any
	var err error
	h.call(o, func() {
		if o.IsI {
			err = h.st.get(key, &gotAny)
		} else {
			err = h.st.get(key, &got)
		}
	})
	res := map[string]any{"key": key, "result": resStr(fmt.Sprint(got, gotAny), err)}
	switch {
	case h.preCancelled(o, err):
	case st.node.getFails():
		if err == nil {
			h.viol("C06/outage/get-succeeded/"+st.node.outage(), "Get returned no error although the cache store fails", res)
		}
	case h.tainted(key), h.storeTrouble(err, key):
	case cached && pre.Val != "*":
		ok := err == nil
		if ok && o.IsI {
			ok = fmt.Sprint(gotAny) == fmt.Sprint(decodeAny(pre.Val))
		} else if ok {
			r, dec := decodeRow(pre.Val)
			ok = dec && r == got
		}
		if !ok {
			h.viol("C06/get/cached-value-not-served", fmt.Sprintf("Get(%s) returned %s, cached entry is %q", key, res["result"], pre.Val), res)
		}
		h.c.Obs("gets_served", 1)
	default:
		if err == nil || !errors.Is(err, h.st.notFound()) {
			h.viol("C06/get/expected-not-found", fmt.Sprintf("Get(%s) returned %s, entry is %q", key, res["result"], pre.Val), res)
		}
	}
}

// opSet: explicit cache set (configured expiry or requested expiry).
func (h *hist) opSet(o op, written map[string]wr) {
	key := h.keyOf(o)
	st := h.state(key)
	var val any
	good := false
	if o.IsI {
		if r := h.db.byName(o.Name); r != nil && o.Good {
			val, good = pkOf(h.db, r), true
		} else {
			val = h.db.pk((o.Slot + 1) % nSlots)
			good = r != nil && fmt.Sprint(val) == fmt.Sprint(pkOf(h.db, r))
		}
	} else {
		if r := h.dbRow(o.Slot); r != nil && o.Good {
			val, good = *r, true
		} else {
			h.db.version++
			val = row{ID: int64(1000000 + o.Slot), SID: fmt.Sprintf("u%d", o.Slot), Name: "ghost", Val: -h.db.version, Pad: "explicit"}
		}
	}
	var err error
	h.call(o, func() {
		if o.K == "setexp" {
			err = h.st.setExp(key, val, o.D)
		} else {
			err = h.st.set(key, val)
		}
	})
	res := map[string]any{"key": key, "value": fmt.Sprint(val), "result": resStr("ok", err)}
	if h.preCancelled(o, err) {
		return // legitimately refused; a key that changed nevertheless is met by the TTL checks of the scan
	}
	if st.node.setFails() {
		if err == nil {
			h.viol("C06/outage/set-succeeded/"+st.node.outage(), "explicit set returned no error although the cache store fails", res)
		}
		return
	}
	if err == nil {
		st.polluted = !good
	}
	switch {
	case o.K == "setexp" && o.D > 0:
		written[key] = wr{class: "setexp", d: o.D}
	case o.K == "setexp":
		written[key] = wr{class: "setexp-nonpositive"}
		h.c.Obs("setexp_nonpositive", 1)
	default:
		written[key] = wr{class: "set"}
	}
}

// opWrite: database write followed by invalidation (Exec), or a bare Del.
func (h *hist) opWrite(o op, mustAbsent map[string]string) {
	var keys []string
	mut := func() {}
	if o.K == "write" {
		// the caller knows the old and the new row: dry run on a copy
		cp := *h.db
		keys = append(keys, h.P(o.Slot))
		for _, nm := range cp.mutate(o.Mut, o.Slot, o.Name) {
			keys = append(keys, h.I(nm))
		}
		mut = func() { h.db.mutate(o.Mut, o.Slot, o.Name) }
	} else {
		keys = append(keys, h.keyOf(o))
	}
	if !h.st.hasIndex() {
		keys = keys[:1]
	}
	v0 := h.db.version
	fail := h.db.fail && o.K == "write"
	// a database refuses to work under a dead context: Exec returns that error, nothing was written
	dead := o.K == "write" && o.Ctx == ctxPre && !h.cfg.NoCtx
	var err error
	h.call(o, func() {
		if o.K == "write" {
			err = h.st.write(mut, fail, keys...)
		} else {
			err = h.st.del(keys...)
		}
	})
	res := map[string]any{"keys": keys, "result": resStr("ok", err)}
	expected := map[string]int{}
	if !fail && !dead {
		for _, k := range keys {
			if !h.state(k).node.setFails() {
				expected[k]++
			}
		}
	}
	h.absorbDels(expected)
	if dead {
		h.c.Obs("precancelled_calls_failed", 1)
		if !errors.Is(err, context.Canceled) {
			h.viol("C06/dberr/not-returned/exec", "the database refused the write (context cancelled before the call) but Exec returned "+resStr("ok", err), res)
		}
		if h.db.version != v0 {
			panic("harness: refused write mutated the database")
		}
		return
	}
	if fail {
		if !errors.Is(err, errDB) {
			h.viol("C06/dberr/not-returned/exec", "write during a database failure returned "+resStr("ok", err), res)
		}
		if h.db.version != v0 {
			panic("harness: failing write mutated the database")
		}
		return
	}
	for _, k := range keys {
		st := h.state(k)
		if st.node.setFails() {
			st.pending++
			if e, was := h.prev[k]; was {
				st.stale = append(st.stale, e.Val)
			}
			h.fault++
			h.taintAt = time.Now()
			h.c.Obs("failed_invalidations", 1)
			if cancelledAfterReturn(o.Ctx) && !h.cfg.NoCtx {
				// the retry has to happen although the caller's context is dead by then
				h.taintCtxDead = true
				h.c.Obs("failed_invalidations_ctx_cancelled_after_return", 1)
			}
			continue
		}
		if _, was := h.prev[k]; was {
			h.invalidated++
		}
		mustAbsent[k] = "C06/invalidate/key-survived/" + o.K
	}
}

// preCancelled: the op ran under a context that was cancelled before the call
// and reported exactly that. Everything else (a result, another error) is
// judged like the outcome of an ordinary call.
func (h *hist) preCancelled(o op, err error) bool {
	if o.Ctx != ctxPre || h.cfg.NoCtx || err == nil || !errors.Is(err, context.Canceled) {
		return false
	}
	h.c.Obs("precancelled_calls_failed", 1)
	return true
}
