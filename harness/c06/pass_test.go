package c06

import (
	"context"
	"database/sql"
	"errors"
	"fmt"
	"reflect"

	"github.com/zeromicro/go-zero/core/stores/sqlx"

	"verifharness/kit"
)

// passDB is the sqlx.SqlConn handed to the sqlc constructors (nil except in the
// passthrough family: the query closures of the other families never touch it).
var passDB sqlx.SqlConn

// passConn records the statements that reach the database connection.
type passConn struct {
	calls []string
}

type passResult struct{}

func (passResult) LastInsertId() (int64, error) { return 1, nil }
func (passResult) RowsAffected() (int64, error) { return 1, nil }

func (p *passConn) rec(m, q string, args []any) { p.calls = append(p.calls, fmt.Sprint(m, "|", q, "|", args)) }
func (p *passConn) fill(v any) {
	switch x := v.(type) {
	case *row:
		*x = row{ID: 77, Name: "direct"}
	case *[]row:
		*x = []row{{ID: 77, Name: "direct"}}
	}
}
func (p *passConn) Exec(q string, a ...any) (sql.Result, error) {
	return p.ExecCtx(context.Background(), q, a...)
}
func (p *passConn) ExecCtx(_ context.Context, q string, a ...any) (sql.Result, error) {
	p.rec("exec", q, a)
	return passResult{}, nil
}
func (p *passConn) Prepare(string) (sqlx.StmtSession, error) { return nil, errors.New("no prepare") }
func (p *passConn) PrepareCtx(context.Context, string) (sqlx.StmtSession, error) {
	return nil, errors.New("no prepare")
}
func (p *passConn) QueryRow(v any, q string, a ...any) error {
	return p.QueryRowCtx(context.Background(), v, q, a...)
}
func (p *passConn) QueryRowCtx(_ context.Context, v any, q string, a ...any) error {
	p.rec("row", q, a)
	p.fill(v)
	return nil
}
func (p *passConn) QueryRowPartial(v any, q string, a ...any) error {
	return p.QueryRowPartialCtx(context.Background(), v, q, a...)
}
func (p *passConn) QueryRowPartialCtx(_ context.Context, v any, q string, a ...any) error {
	p.rec("rowpartial", q, a)
	p.fill(v)
	return nil
}
func (p *passConn) QueryRows(v any, q string, a ...any) error {
	return p.QueryRowsCtx(context.Background(), v, q, a...)
}
func (p *passConn) QueryRowsCtx(_ context.Context, v any, q string, a ...any) error {
	p.rec("rows", q, a)
	p.fill(v)
	return nil
}
func (p *passConn) QueryRowsPartial(v any, q string, a ...any) error {
	return p.QueryRowsPartialCtx(context.Background(), v, q, a...)
}
func (p *passConn) QueryRowsPartialCtx(_ context.Context, v any, q string, a ...any) error {
	p.rec("rowspartial", q, a)
	p.fill(v)
	return nil
}
func (p *passConn) RawDB() (*sql.DB, error) { return nil, errors.New("no raw db") }
func (p *passConn) Transact(fn func(sqlx.Session) error) error {
	p.rec("transact", "", nil)
	return fn(p)
}
func (p *passConn) TransactCtx(ctx context.Context, fn func(context.Context, sqlx.Session) error) error {
	p.rec("transact", "", nil)
	return fn(ctx, p)
}

// passthrough: the methods of sqlc.CachedConn that go straight to the database
// (ExecNoCache, QueryRow[s][Partial]NoCache, Transact) and WithSession. The
// statement constrains them only through the cache they share with the cached
// reads: entries cached before such a call are still there afterwards (a cached
// row or marker is served without touching the database until it expires or is
// invalidated), and a conn derived with WithSession reads and fills the very
// same cache under the ordinary oracle.
func passthrough(w *world, c *kit.Case) {
	r := c.R
	cfg := genConfig(r)
	cfg.Flavour = []string{"sqlc-node", "sqlc-cluster"}[r.Intn(2)]
	cfg.setExpiries(kit.Choose(r, burstExps), kit.Choose(r, nfExps))
	fc := &passConn{}
	passDB = fc
	defer func() { passDB = nil }()
	h := newHist(w, c, cfg)
	if h.dead {
		return
	}
	run := func(ops ...op) {
		for _, o := range ops {
			if !h.dead && !c.Violated() {
				h.step(o)
			}
		}
	}
	var pop []op
	for s := 0; s < nSlots; s++ {
		if r.Chance(0.7) {
			pop = append(pop, op{K: "write", Mut: "upsert", Slot: s, Name: names[s], Ctx: genCtx(r, cfg, false)})
		}
		if r.Chance(0.8) {
			pop = append(pop, op{K: "read", Slot: s, Ctx: genCtx(r, cfg, false)})
		}
		if r.Chance(0.5) {
			pop = append(pop, op{K: "index", Name: names[s], Ctx: genCtx(r, cfg, false)})
		}
	}
	run(pop...)
	if h.dead || c.Violated() {
		return
	}
	cc := h.st.(*sqlStore).cc
	before, _ := w.scan(h.nodes)
	var v row
	var vs []row
	ctx := hctx
	calls := []struct {
		name string
		fn   func() error
	}{
		{"ExecNoCache", func() error { _, e := cc.ExecNoCache("update t set a=?", 1); return e }},
		{"ExecNoCacheCtx", func() error { _, e := cc.ExecNoCacheCtx(ctx, "update t set a=?", 2); return e }},
		{"QueryRowNoCache", func() error { return cc.QueryRowNoCache(&v, "select 1 where id=?", 3) }},
		{"QueryRowNoCacheCtx", func() error { return cc.QueryRowNoCacheCtx(ctx, &v, "select 1 where id=?", 4) }},
		{"QueryRowPartialNoCache", func() error { return cc.QueryRowPartialNoCache(&v, "select 2 where id=?", 5) }},
		{"QueryRowPartialNoCacheCtx", func() error { return cc.QueryRowPartialNoCacheCtx(ctx, &v, "select 2 where id=?", 6) }},
		{"QueryRowsNoCache", func() error { return cc.QueryRowsNoCache(&vs, "select 3 where id>?", 7) }},
		{"QueryRowsNoCacheCtx", func() error { return cc.QueryRowsNoCacheCtx(ctx, &vs, "select 3 where id>?", 8) }},
		{"QueryRowsPartialNoCache", func() error { return cc.QueryRowsPartialNoCache(&vs, "select 4 where id>?", 9) }},
		{"QueryRowsPartialNoCacheCtx", func() error { return cc.QueryRowsPartialNoCacheCtx(ctx, &vs, "select 4 where id>?", 10) }},
		{"Transact", func() error {
			return cc.Transact(func(s sqlx.Session) error { _, e := s.Exec("insert into t values(?)", 11); return e })
		}},
		{"TransactCtx", func() error {
			return cc.TransactCtx(ctx, func(ctx context.Context, s sqlx.Session) error {
				_, e := s.ExecCtx(ctx, "insert into t values(?)", 12)
				return e
			})
		}},
	}
	var done []string
	for _, ix := range r.Perm(len(calls))[:r.Range(3, len(calls))] {
		n0 := len(fc.calls)
		err := calls[ix].fn()
		done = append(done, calls[ix].name)
		h.log = append(h.log, calls[ix].name)
		c.Obs("passthrough_calls", 1)
		if err == nil && len(fc.calls) > n0 {
			c.Obs("passthrough_calls_reaching_the_database", 1)
		}
		after, _ := w.scan(h.nodes)
		for k, e := range before {
			if a, ok := after[k]; !ok || a.Val != e.Val {
				h.viol("C06/cached/entry-lost/call-without-cache", fmt.Sprintf("%s changed the cached entry %s (%q -> %q); it was neither invalidated nor expired", calls[ix].name, k, e.Val, after[k].Val),
					map[string]any{"before": before, "after": after})
			}
		}
		if !reflect.DeepEqual(keysOf(before), keysOf(after)) {
			c.Obs("passthrough_calls_that_added_keys", 1)
		}
		before = after
		h.flush(false)
	}
	// the entries are served as before
	var reads []op
	for s := 0; s < nSlots; s++ {
		reads = append(reads, op{K: "read", Slot: s, Ctx: genCtx(r, cfg, false)})
	}
	for _, nm := range names {
		reads = append(reads, op{K: "index", Name: nm, Ctx: genCtx(r, cfg, false)})
	}
	h.prev = before
	run(reads...)
	// a conn derived with WithSession shares the cache
	orig := h.st
	ws := &sqlStore{cc: cc.WithSession(fc), db: h.db, ctx: orig.(*sqlStore).ctx}
	h.st = ws
	h.log = append(h.log, "WithSession")
	var mixed []op
	for i, n := 0, r.Range(4, 10); i < n; i++ {
		g := &genState{}
		o := genOp(r, cfg, g, false, false)
		if o.K == "ff" {
			o = op{K: "read", Slot: r.Intn(nSlots), Ctx: genCtx(r, cfg, false)}
		}
		mixed = append(mixed, o)
	}
	run(mixed...)
	h.st = orig
	h.log = append(h.log, "original conn")
	run(sweep(cfg, false)...)
	c.Obs("passthrough_histories", 1)
	c.Obs("passthrough_cache_hits", int64(h.hits))
	parts := []any{"passthrough", cfg.Flavour, cfg.E, cfg.NE}
	for _, s := range h.log {
		parts = append(parts, s)
	}
	c.Sig(h.hits > 0 && len(done) > 0, parts...)
	c.Sample("passthrough", 2, map[string]any{"config": cfg, "ops": h.log, "direct_calls": done, "statements_at_the_database": len(fc.calls)})
}

func keysOf(m map[string]entry) map[string]bool {
	out := map[string]bool{}
	for k := range m {
		out[k] = true
	}
	return out
}
