#!/bin/bash
# usage: tools/seedbatch2.sh <PROP> <src prefix e.g. seed2C09> <first seed number> <pkg> [<pkg> ...]
P=$1; SRCP=$2; N=$3; shift 3
i=0
for pkg in "$@"; do
  i=$((i+1)); k=$((N+i-1))
  src=/var/tmp/$SRCP-out/s$i
  [ -f $src/patch.diff ] || { echo "no $src"; continue; }
  needs=$(grep -i -m1 -A3 "needs\|trigger" $src/notes.md | tr '\n' ' ' | cut -c1-400)
  python3 tools/seedkeep.py $src $P-s$k $P $pkg auto "$needs" > /var/tmp/ck/seedkeep-$P-s$k.txt 2>&1
  python3 - <<PY
import json
p='/verif/seeded/$P-s$k/meta.json'
m=json.load(open(p))
c=m['confirmed']
m['caught_by_quick_check']='yes' if c['check_quick_with_patch_exit']==1 and c['violation_keys'] else 'no'
json.dump(m,open(p,'w'),indent=1)
print('$P-s$k', 'demo_without',c['demo_without_patch_exit'],'tests',c['existing_tests_with_patch_exit'],'demo_with',c['demo_with_patch_exit'],'check',c['check_quick_with_patch_exit'],m['caught_by_quick_check'],c['violation_keys'][:4])
PY
done
