#!/usr/bin/env python3
"""usage: tools/seedkeep-c20.py <src dir> <seed id> <needs...>  — like seedkeep.py for changes to tools/goctl (runs tools/seedcheck-c20.sh)"""
import sys, os, shutil, subprocess, json
src, sid = sys.argv[1:3]
needs = " ".join(sys.argv[3:])
root = os.path.dirname(os.path.dirname(os.path.abspath(__file__)))
dst = os.path.join(root, "seeded", sid)
os.makedirs(dst, exist_ok=True)
for f in ("patch.diff", "demo_test.go", "notes.md"):
    if os.path.exists(os.path.join(src, f)) and os.path.abspath(src) != os.path.abspath(dst):
        shutil.copy(os.path.join(src, f), os.path.join(dst, f))
out = subprocess.run([os.path.join(root, "tools", "seedcheck-c20.sh"), dst], capture_output=True, text=True).stdout
print(out)
lines = out.splitlines()
def ex(tag):
    for l in lines:
        if tag in l:
            return int(l.split("exit")[1].split()[0])
    return None
keys = [l.strip().split()[0][4:] for l in lines if l.strip().startswith("key=")]
r = ex("./check")
meta = {
    "seed_id": sid, "property": "C20",
    "breaks": open(os.path.join(dst, "notes.md")).read()[:1500] if os.path.exists(os.path.join(dst, "notes.md")) else "",
    "needs_to_manifest": needs,
    "demo": {"file": "demo_test.go", "copy_into": "tools/goctl/pkg/parser/api/format",
             "cmd": "(scratch module replacing go-zero/goctl by the worktree + stand-ins) go test -count=1 -run <demo tests> github.com/zeromicro/go-zero/tools/goctl/pkg/parser/api/format"},
    "confirmed": {"demo_without_patch_exit": ex("demo without patch"), "existing_tests_with_patch_exit": ex("existing tests with patch"),
                  "demo_with_patch_exit": ex("demo with patch"), "check_quick_with_patch_exit": r, "violation_keys": keys},
    "what_i_ran": "tools/seedcheck-c20.sh seeded/" + sid,
    "caught_by_quick_check": "yes" if r == 1 and keys else "no",
}
json.dump(meta, open(os.path.join(dst, "meta.json"), "w"), indent=1)
c = meta["confirmed"]
print(sid, 'demo_without', c['demo_without_patch_exit'], 'tests', c['existing_tests_with_patch_exit'], 'demo_with', c['demo_with_patch_exit'], 'check', r, meta['caught_by_quick_check'], keys[:4])
