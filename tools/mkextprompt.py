#!/usr/bin/env python3
"""usage: tools/mkextprompt.py <PROP> <cpu seconds now> <task file>  -> prints the extender prompt"""
import sys, os
root = os.path.dirname(os.path.dirname(os.path.abspath(__file__)))
prop, cpu, taskf = sys.argv[1:4]
t = open(os.path.join(root, "tools", "extender_prompt.txt")).read()
for k, v in {"__PROP__": prop, "__LOWER__": prop.lower(), "__CPU__": cpu, "__TASK__": open(taskf).read().strip()}.items():
    t = t.replace(k, v)
print(t)
