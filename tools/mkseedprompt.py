#!/usr/bin/env python3
"""usage: tools/mkseedprompt.py <PROP> <id> <n> [extra text]  -> creates worktree /var/tmp/wt-<id> of /repo HEAD, prints the agent prompt"""
import json, sys, os, subprocess
root = os.path.dirname(os.path.dirname(os.path.abspath(__file__)))
prop, sid, n = sys.argv[1], sys.argv[2], sys.argv[3]
extra = " ".join(sys.argv[4:])
p = [json.loads(l) for l in open(os.path.join(root, "properties.jsonl")) if json.loads(l)["id"] == prop][0]
wt = "/var/tmp/wt-" + sid
if not os.path.exists(wt):
    subprocess.run(["git", "-C", "/repo", "worktree", "add", "-q", wt, "HEAD"], check=True)
os.makedirs("/var/tmp/%s-out" % sid, exist_ok=True)
t = open(os.path.join(root, "tools", "seed_agent_prompt.txt")).read()
for k, v in {"__WT__": wt, "__ID__": sid, "__PROP__": prop, "__TITLE__": p["title"], "__STATEMENT__": p["statement"],
             "__QUANT__": p["quantifier"]["text"], "__FILES__": ", ".join(p["anchors"]["files"]), "__N__": n, "__EXTRA__": extra}.items():
    t = t.replace(k, v)
print(t)
