#!/usr/bin/env python3
"""usage: tools/retire.py <PROP> <commit> <key-substring|ALL> [...]  — moves provisional known findings
(known_findings.d/<PROP>.json) whose key contains one of the substrings to known_findings.json as status=fixed."""
import json, sys, os
root = os.path.dirname(os.path.dirname(os.path.abspath(__file__)))
prop, commit, pats = sys.argv[1], sys.argv[2], sys.argv[3:]
dpath = os.path.join(root, "known_findings.d", prop + ".json")
d = json.load(open(dpath))
kf = json.load(open(os.path.join(root, "known_findings.json")))
keep = []
for e in d:
    if any(p == "ALL" or p in e["key"] for p in pats):
        e = dict(e, status="fixed", commit=commit, what="fixed: property=%s %s %s" % (prop, commit, e["what"]))
        kf.append(e); print("retired", e["key"])
    else:
        keep.append(e)
json.dump(kf, open(os.path.join(root, "known_findings.json"), "w"), indent=1, ensure_ascii=False)
if keep:
    json.dump(keep, open(dpath, "w"), indent=1, ensure_ascii=False)
else:
    os.remove(dpath)
