#!/usr/bin/env python3
"""Regenerates /verif/MANIFEST.json from props/*.json (+ not_applicable.json)."""
import json, glob, os, subprocess
root = os.path.dirname(os.path.dirname(os.path.abspath(__file__)))
props = [json.loads(l)["id"] for l in open(os.path.join(root, "properties.jsonl"))]
checks, na = [], []
try:
    na_cfg = {e["property_id"]: e["reason"] for e in json.load(open(os.path.join(root, "not_applicable.json")))}
except FileNotFoundError:
    na_cfg = {}
ready = set(json.load(open(os.path.join(root, "ready.json"))))  # properties whose check the coordinator has accepted
for pid in props:
    p = os.path.join(root, "props", pid + ".json")
    if pid in na_cfg or not os.path.exists(p) or pid not in ready:
        na.append({"property_id": pid, "reason": na_cfg.get(pid, "check not built yet (work in progress)")})
        continue
    cfg = json.load(open(p))
    m = cfg.get("manifest", {})
    c = {
        "property_id": pid,
        "quick_cmd": f"./check {pid} quick",
        "thorough_cmd": f"./check {pid} thorough",
        "evidence_file": f"/verif/evidence/{pid}.json",
        "replay_cmd_template": f"./check {pid} --replay {{path}}",
        "engine": "vcheck",
        "level_claimed": {
            "category": cfg.get("level", "exploration"),
            "text": m.get("level_text", ""),
            "design_ref": m.get("design_ref", "DESIGN.md §4 " + pid),
        },
        "level_note": m.get("level_note", ""),
        "technique": m.get("technique", "runtime monitoring: reference-model monitor over executions of the real code, race detector"),
    }
    checks.append(c)
hooks = subprocess.run(["git", "-C", "/repo", "log", "--format=%H %s"], capture_output=True, text=True).stdout.splitlines()
hook_commits = [l.split()[0] for l in hooks if l.split(" ", 1)[1].startswith("verif hook:")]
man = {
    "version": 1,
    "setup_cmd": "./setup.sh",
    "hooks": {
        "guard": "verif (Go build tag)",
        "enable": "go test -c -race -tags verif (the driver passes -tags verif to every build; white-box tests are mapped into /repo packages with -overlay, nothing is written under /repo)",
        "baseline_off_cmd": "cd /repo && GOFLAGS=-mod=mod GOPROXY=off GOSUMDB=off GOTOOLCHAIN=local go test -json -vet=off -count=1 -timeout 25m ./...",
        "source_commits": hook_commits,
        "add_only": True,
    },
    "engines": [
        {"name": "vcheck", "path": "/verif/cmd/vcheck", "serves_properties": [c["property_id"] for c in checks],
         "kind_free_text": "driver: builds race-instrumented test binaries from /repo's working tree (black-box harness module + white-box overlays), runs them as sharded child processes, merges their JSONL event/violation streams, de-duplicates race reports, matches known findings, writes evidence"},
    ],
    "checks": checks,
    "not_applicable": na,
    "notes": "All checks are runtime monitors over executions of the real go-zero code (see DESIGN.md). Exit 0 = held on everything observed, 1 = VIOLATION line, 2 = broken/inconclusive run (infrastructure), never folded into the other two.",
}
json.dump(man, open(os.path.join(root, "MANIFEST.json"), "w"), indent=1)
print("checks:", len(checks), "not_applicable:", len(na))
