#!/usr/bin/env python3
"""usage: tools/taken.py <PROP>  -> one line per earlier seeded change of that property (site/change only), for the 'already taken' note of a new seeding round"""
import re,sys,os
root=os.path.dirname(os.path.dirname(os.path.abspath(__file__)))
prop=sys.argv[1]
out=[]
for l in open(os.path.join(root,'DESIGN.md')):
    m=re.match(r'\| (C\d\d-s\d+) \| (.*?) \| (.*?) \|',l)
    if m and m.group(1).startswith(prop+'-') and 'rediscovery' not in m.group(2): out.append(m.group(2))
for l in open(os.path.join(root,'tools','round34.tsv')):
    f=l.rstrip('\n').split('\t')
    if f[0].startswith(prop+'-') and 'rediscovery' not in f[1]: out.append(f[1])
import glob,json
seen=set(re.findall(r'(C\d\d-s\d+)', open(os.path.join(root,'DESIGN.md')).read().split('<!-- SEEDS:BEGIN -->')[0]))|{l.split('\t')[0] for l in open(os.path.join(root,'tools','round34.tsv'))}
for d in sorted(glob.glob(os.path.join(root,'seeded',prop+'-s*'))):
    sid='-'.join(os.path.basename(d).split('-')[:2])
    if sid in seen or not os.path.exists(os.path.join(d,'notes.md')): continue
    for l in open(os.path.join(d,'notes.md')):
        if l.startswith('#'):
            out.append(re.sub(r'^#+\s*(seed\w+\s*/\s*)?(s\d+\s*[-—–:]+\s*)?','',l.strip())); break
for o in out: print(' - '+o.replace('`',''))
