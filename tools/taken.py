#!/usr/bin/env python3
"""usage: tools/taken.py <PROP>  -> one line per earlier seeded change of that property (site/change only), for the 'already taken' note of a new seeding round"""
import re,sys,os
root=os.path.dirname(os.path.dirname(os.path.abspath(__file__)))
prop=sys.argv[1]
out=[]
for l in open(os.path.join(root,'DESIGN.md')):
    m=re.match(r'\| (C\d\d-s\d+) \| (.*?) \| (.*?) \|',l)
    if m and m.group(1).startswith(prop+'-') and 'rediscovery' not in m.group(2): out.append(m.group(2))
for l in open(os.path.join(root,'tools','round34.tsv')):
    f=l.rstrip('\n').split('\t')
    if f[0].startswith(prop+'-') and 'rediscovery' not in f[1]: out.append(f[1])
for o in out: print(' - '+o.replace('`',''))
