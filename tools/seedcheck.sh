#!/bin/bash
# usage: tools/seedcheck.sh <seed dir with patch.diff+demo_test.go> <PROP> <demo pkg dir rel. to repo> [extra test pkgs...]
# Confirms a seeded change in a scratch worktree of /repo HEAD:
#   1. demo passes without the patch          2. patch applies, existing tests of the touched pkgs pass
#   3. demo fails with the patch              4. ./check <PROP> quick (VERIF_REPO=worktree) reports a VIOLATION
# Prints a summary block (also usable for meta.json) and removes the worktree.
set -u
export GOFLAGS=-mod=mod GOPROXY=off GOSUMDB=off GOTOOLCHAIN=local
SRC=$(realpath "$1"); PROP=$2; DEMOPKG=$3; shift 3
EXTRA="$*"
TIER=${SEED_TIER:-quick}
W=$(mktemp -d /var/tmp/wt-seedchk-XXXXXX); rmdir "$W"
git -C /repo worktree add -q "$W" HEAD || exit 2
cleanup() { git -C /repo worktree remove --force "$W" 2>/dev/null; rm -rf "$W"; }
trap cleanup EXIT
cd "$W"
PKGS=$(grep '^+++ b/' "$SRC/patch.diff" | sed 's#^+++ b/##' | xargs -n1 dirname | sort -u | sed 's#^#./#; s#$#/...#' | tr '\n' ' ')
demo_name=zz_seed_demo_test.go
RUNRE="^($(grep -oE '^func (Test[A-Za-z0-9_]+)' "$SRC/demo_test.go" | awk '{print $2}' | paste -sd'|'))\$"
cp "$SRC/demo_test.go" "$DEMOPKG/$demo_name"
go test -count=1 -tags verif -run "$RUNRE" ./"$DEMOPKG" >"$W/.demo_without.txt" 2>&1; r_without=$?
rm "$DEMOPKG/$demo_name"
git apply "$SRC/patch.diff" || { echo "RESULT patch does not apply"; exit 2; }
go build ./... >"$W/.build.txt" 2>&1; r_build=$?
go test -count=1 -exec "chrt -f 20" $PKGS ./"$DEMOPKG"/... $EXTRA >"$W/.pkgtests.txt" 2>&1; r_pkg=$?
cp "$SRC/demo_test.go" "$DEMOPKG/$demo_name"
go test -count=1 -tags verif -run "$RUNRE" ./"$DEMOPKG" >"$W/.demo_with.txt" 2>&1; r_with=$?
rm "$DEMOPKG/$demo_name"
cd /verif
VERIF_REPO="$W" ./check "$PROP" "$TIER" >"$W/.check.txt" 2>&1; r_check=$?
echo "seed=$SRC prop=$PROP"
echo "  demo without patch: exit $r_without (want 0)"
echo "  build with patch:   exit $r_build (want 0)"
echo "  existing tests with patch ($PKGS ./$DEMOPKG/... $EXTRA): exit $r_pkg (want 0)"
echo "  demo with patch:    exit $r_with (want !=0)"
echo "  ./check $PROP $TIER with patch: exit $r_check (want 1)"
grep -E "^(VIOLATION|  key=|KNOWN-FINDING|BROKEN-RUN|INCONCLUSIVE)" "$W/.check.txt" | cut -c1-400 | head -20
[ $r_pkg -ne 0 ] && tail -15 "$W/.pkgtests.txt"
[ $r_without -ne 0 ] && tail -15 "$W/.demo_without.txt"
[ $r_check -eq 2 ] && tail -20 "$W/.check.txt"
exit 0
