#!/usr/bin/env python3
"""usage: tools/seedkeep.py <src dir> <seed id> <PROP> <demo pkg dir> <caught: yes|no|partial> <needs...>
Runs tools/seedcheck.sh on the seeded change and stores it as /verif/seeded/<seed id>/ (patch.diff, demo_test.go, notes.md, meta.json)."""
import sys, os, shutil, subprocess, json
src, sid, prop, demopkg, caught = sys.argv[1:6]
needs = " ".join(sys.argv[6:])
root = os.path.dirname(os.path.dirname(os.path.abspath(__file__)))
dst = os.path.join(root, "seeded", sid)
os.makedirs(dst, exist_ok=True)
for f in ("patch.diff", "demo_test.go", "notes.md"):
    if os.path.exists(os.path.join(src, f)) and os.path.abspath(src) != os.path.abspath(dst):
        shutil.copy(os.path.join(src, f), os.path.join(dst, f))
extra = os.environ.get("SEED_EXTRA_PKGS", "").split()
out = subprocess.run([os.path.join(root, "tools", "seedcheck.sh"), dst, prop, demopkg] + extra, capture_output=True, text=True).stdout
print(out)
lines = out.splitlines()
def ex(tag):
    for l in lines:
        if tag in l:
            return int(l.split("exit")[1].split()[0])
    return None
keys = [l.strip().split()[0][4:] for l in lines if l.strip().startswith("key=")]
meta = {
    "seed_id": sid,
    "property": prop,
    "breaks": open(os.path.join(dst, "notes.md")).read()[:1500] if os.path.exists(os.path.join(dst, "notes.md")) else "",
    "needs_to_manifest": needs,
    "demo": {"file": "demo_test.go", "copy_into": demopkg, "cmd": f"go test -count=1 ./{demopkg}"},
    "confirmed": {
        "demo_without_patch_exit": ex("demo without patch"),
        "existing_tests_with_patch_exit": ex("existing tests with patch"),
        "demo_with_patch_exit": ex("demo with patch"),
        "check_quick_with_patch_exit": ex("./check"),
        "violation_keys": keys,
    },
    "what_i_ran": f"tools/seedcheck.sh seeded/{sid} {prop} {demopkg} {' '.join(extra)} (scratch worktree of /repo HEAD: demo without patch, git apply, go build ./..., go test of the touched packages, demo with patch, VERIF_REPO=<worktree> ./check {prop} quick)",
    "caught_by_quick_check": caught,
}
json.dump(meta, open(os.path.join(dst, "meta.json"), "w"), indent=1)
print("kept", dst)
