#!/usr/bin/env python3
"""Runs the repository's baseline suite with the verif guard OFF and reports stable-pass tests that did not pass."""
import json, subprocess, os, sys
env = dict(os.environ, GOFLAGS="-mod=mod", GOPROXY="off", GOSUMDB="off", GOTOOLCHAIN="local")
pkgs = sys.argv[1:] or ["./..."]
p = subprocess.run(["go", "test", "-json", "-vet=off", "-count=1", "-timeout", "25m"] + pkgs, cwd="/repo", env=env, capture_output=True, text=True)
res = {}
for line in p.stdout.splitlines():
    try:
        e = json.loads(line)
    except Exception:
        continue
    if e.get("Test") and e.get("Action") in ("pass", "fail", "skip"):
        res[e["Package"] + "::" + e["Test"]] = e["Action"]
base = json.load(open("/root/.vp/BASELINE.json"))
stable = base["stable_pass"]
if pkgs != ["./..."]:
    pk = {k.split("::")[0] for k in res}
    stable = [s for s in stable if s.split("::")[0] in pk]
bad = [s for s in stable if res.get(s) != "pass"]
print("ran", len(res), "tests; stable_pass checked", len(stable), "; not passing:", len(bad))
for b in bad[:40]:
    print("  ", b, res.get(b))
sys.exit(1 if bad else 0)
