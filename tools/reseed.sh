#!/bin/bash
# usage: tools/reseed.sh <seed id> [tier]
# Re-runs ./check <PROP> <tier> (default quick) against a scratch worktree of /repo HEAD with
# seeded/<seed id>/patch.diff applied, prints the verdict and refreshes meta.json
# (confirmed.check_quick_with_patch_exit, confirmed.violation_keys, caught_by_quick_check,
# rechecked_at_verif_commit). The worktree is removed afterwards.
set -u
export GOFLAGS=-mod=mod GOPROXY=off GOSUMDB=off GOTOOLCHAIN=local
cd "$(dirname "$0")/.."
SID=$1; TIER=${2:-quick}
PROP=${RESEED_PROP:-${SID%%-*}}
SRC=$PWD/seeded/$SID
[ -f "$SRC/patch.diff" ] || { echo "no $SRC/patch.diff"; exit 2; }
W=$(mktemp -d /var/tmp/wt-reseed-XXXXXX); rmdir "$W"
git -C /repo worktree add -q "$W" HEAD || exit 2
cleanup() { git -C /repo worktree remove --force "$W" 2>/dev/null; rm -rf "$W"; }
trap cleanup EXIT
git -C "$W" apply "$SRC/patch.diff" || { echo "$SID patch does not apply"; exit 2; }
VERIF_REPO="$W" ./check "$PROP" "$TIER" >"$W/.check.txt" 2>&1; r=$?
keys=$(grep -E "^  key=" "$W/.check.txt" | awk '{print $1}' | cut -c5- | sort -u | head -12 | paste -sd' ')
echo "$SID $PROP $TIER exit=$r keys: $keys"
[ $r -eq 2 ] && { grep -E "BROKEN-RUN|INCONCLUSIVE" "$W/.check.txt" | head -5; tail -5 "$W/.check.txt"; }
mkdir -p /var/tmp/ck; cp "$W/.check.txt" /var/tmp/ck/reseed-$SID.txt
[ -f "$SRC/meta.json" ] && [ "$TIER" = quick ] && python3 - "$SRC/meta.json" "$r" "$keys" <<'PY'
import json,sys,subprocess
p,r,keys=sys.argv[1],int(sys.argv[2]),sys.argv[3].split()
m=json.load(open(p))
c=m.setdefault('confirmed',{})
c['check_quick_with_patch_exit']=r
c['violation_keys']=keys
was=str(m.get('caught_by_quick_check',''))
if r==1 and keys:
    if not was.startswith('yes'):
        m['caught_by_quick_check']='yes (after the check was strengthened; first version missed it)'
else:
    m['caught_by_quick_check']='no'
m['rechecked_at_verif_commit']=subprocess.run(['git','rev-parse','--short','HEAD'],capture_output=True,text=True).stdout.strip()
json.dump(m,open(p,'w'),indent=1)
PY
exit 0
