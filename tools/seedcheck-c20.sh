#!/bin/bash
# usage: tools/seedcheck-c20.sh <seed dir>   — like seedcheck.sh, for changes to tools/goctl (separate module, built through a scratch module with stand-ins)
set -u
export GOFLAGS=-mod=mod GOPROXY=off GOSUMDB=off GOTOOLCHAIN=local
SRC=$(realpath "$1"); PROP=C20
W=$(mktemp -d /var/tmp/wt-seedchk-XXXXXX); rmdir "$W"
M=$(mktemp -d /var/tmp/seedmod-XXXXXX)
git -C /repo worktree add -q "$W" HEAD || exit 2
cleanup() { git -C /repo worktree remove --force "$W" 2>/dev/null; rm -rf "$W" "$M"; }
trap cleanup EXIT
sed "s#=> /repo#=> $W#; /verifharness/d" /verif/goctlharness/go.mod | sed 's/^module .*/module seedc20/' > "$M/go.mod"
cat /verif/goctlharness/go.sum > "$M/go.sum" 2>/dev/null
API=github.com/zeromicro/go-zero/tools/goctl/pkg/parser/api
DEMOPKG=tools/goctl/pkg/parser/api/format
demo_name=zz_seed_demo_test.go
RUNRE="^($(grep -oE '^func (Test[A-Za-z0-9_]+)' "$SRC/demo_test.go" | awk '{print $2}' | paste -sd'|'))\$"
cp "$SRC/demo_test.go" "$W/$DEMOPKG/$demo_name"
(cd "$M" && go test -count=1 -run "$RUNRE" $API/format) >"$W/.demo_without.txt" 2>&1; r_without=$?
rm "$W/$DEMOPKG/$demo_name"
git -C "$W" apply "$SRC/patch.diff" || { echo "RESULT patch does not apply"; exit 2; }
(cd "$M" && go build $API/...) >"$W/.build.txt" 2>&1; r_build=$?
(cd "$M" && go test -count=1 $API/...) >"$W/.pkgtests.txt" 2>&1; r_pkg=$?
git -C "$W" checkout -- tools/goctl/pkg/parser/api/format/testdata 2>/dev/null
git -C "$W" apply -R --check "$SRC/patch.diff" 2>/dev/null || true
cp "$SRC/demo_test.go" "$W/$DEMOPKG/$demo_name"
(cd "$M" && go test -count=1 -run "$RUNRE" $API/format) >"$W/.demo_with.txt" 2>&1; r_with=$?
rm "$W/$DEMOPKG/$demo_name"
git -C "$W" checkout -- tools/goctl/pkg/parser/api/format/testdata 2>/dev/null
cd /verif
VERIF_REPO="$W" ./check "$PROP" quick >"$W/.check.txt" 2>&1; r_check=$?
echo "seed=$SRC prop=$PROP"
echo "  demo without patch: exit $r_without (want 0)"
echo "  build with patch:   exit $r_build (want 0)"
echo "  existing tests with patch ($API/...): exit $r_pkg (want 0)"
echo "  demo with patch:    exit $r_with (want !=0)"
echo "  ./check $PROP quick with patch: exit $r_check (want 1)"
grep -E "^(VIOLATION|  key=|KNOWN-FINDING|BROKEN-RUN|INCONCLUSIVE)" "$W/.check.txt" | cut -c1-400 | head -24
[ $r_pkg -ne 0 ] && tail -15 "$W/.pkgtests.txt"
[ $r_without -ne 0 ] && tail -15 "$W/.demo_without.txt"
[ $r_check -eq 2 ] && tail -20 "$W/.check.txt"
exit 0
