module verif

go 1.21
